"""C10 — a failed operation changes nothing.  For every failing operation of every generated history (rejected add /
forward add / replace / remove, and final checks that refuse): the two child views are compared with those before the
call, and a sample of continuations (final check, further adds) is run on the history with and without the failed call.
The implementation is compared with itself; the faithful model only decides whether a difference is a recorded one."""
import json
import random
from . import common as C
from . import matcher, hist


def failed(op, o):
    st = hist.norm_st(o['st'])
    if st != 'ok':
        return True
    return op[0] == 'f' and bool(o.get('req'))


def view(o):
    return (tuple(o['ord']) if isinstance(o['ord'], list) else o['ord'], tuple(o['uno']))


def collect(corp_cases, out, rng, limit):
    """(case index, op index) of failing operations, sampled"""
    sites = []
    for ci, (c, r) in enumerate(zip(corp_cases, out)):
        for oi, (op, o) in enumerate(zip(c['ops'], r)):
            if failed(op, o):
                sites.append((ci, oi))
    rng.shuffle(sites)
    return sites[:limit], len(sites)


def analyse(m, cases, out, mout, sites, rng):
    """returns list of (ci, oi, why, predicted)"""
    res = []
    pairs = []
    for ci, oi in sites:
        c = cases[ci]
        before = view(out[ci][oi - 1]) if oi > 0 else ((), ())
        after = view(out[ci][oi])
        if before != after:
            mb = view(mout[ci][oi - 1]) if oi > 0 else ((), ())
            ma = view(mout[ci][oi])
            res.append((ci, oi, 'child views changed by the failed call: %s -> %s' % (before, after), mb != ma and ma == after))
            continue
        for p in matcher.probes_for(m.g, c['type'], rng):
            pairs.append((ci, oi, [p]))
        # the history's own continuation (whatever it does next: removals, replacements, final checks ...): every prefix up to three operations
        cont = c['ops'][oi + 1:oi + 4]
        for k in range(1, len(cont) + 1):
            pairs.append((ci, oi, cont[:k]))
    A = [{'type': cases[ci]['type'], 'ops': cases[ci]['ops'][:oi + 1] + p} for ci, oi, p in pairs]
    B = [{'type': cases[ci]['type'], 'ops': cases[ci]['ops'][:oi] + p} for ci, oi, p in pairs]
    ia, ma = matcher.run_both(m, A)
    ib, mb = matcher.run_both(m, B)
    seen = set()
    for k, (ci, oi, p) in enumerate(pairs):
        if (ci, oi) in seen:
            continue
        sa, sb = matcher.summary(A[k], ia[k]), matcher.summary(B[k], ib[k])
        if sa != sb:
            msa, msb = matcher.summary(A[k], ma[k]), matcher.summary(B[k], mb[k])
            seen.add((ci, oi))
            res.append((ci, oi, 'after the failed call, %s behaves differently: %s, without the failed call: %s' % (p, sa, sb),
                        msa != msb and msa == sa and msb == sb))
    return res, len(pairs)


def sweep_failures(m, cases, io, mo):
    rng = random.Random(12345)
    sites, _ = collect(cases, io, rng, 4000)
    res, _ = analyse(m, cases, io, mo, sites, rng)
    return res


def run(rep):
    res = C.proof_obligations(rep, 'Properties/C10.v')
    quick = rep.tier == 'quick'
    corp = matcher.Corpus(rep, per_type=30 if quick else 200, maxlen=12 if quick else 20)
    try:
        rng = random.Random(rep.seed * 31 + 7)
        sites, nfail = collect(corp.cases, corp.impl, rng, 3000 if quick else 30000)
        found, npairs = analyse(corp.m, corp.cases, corp.impl, corp.model, sites, rng)
        found = [(corp.cases[ci], oi, why, pr) for ci, oi, why, pr in found]
        # scripted: one child, a final check (refused when the child's sequence needs more), the child removed again, a final check -
        # with and without the refused check in between
        g = corp.m.g
        from . import rx
        scripted = []
        for t in g['types']:
            for a in rx.alphabet(g['templates'][t]):
                for ic in (0, 1):
                    scripted.append({'type': t, 'ops': [['a', a], ['f', ic], ['r', 0], ['f', ic]]})
        rng.shuffle(scripted)
        scripted = scripted[:900 if quick else 100000]
        si, sm = matcher.run_both(corp.m, scripted)
        ssites, _ = collect(scripted, si, rng, 100000)
        sfound, snp = analyse(corp.m, scripted, si, sm, ssites, rng)
        found += [(scripted[ci], oi, why, pr) for ci, oi, why, pr in sfound]
        npairs += snp
        # scripted (2): the USER's failing call - to_string(), which goes through XMLElement._final_checks (the history operation f asks the
        # container directly) - between an add and the removal of that child; the implementation against itself, with and without the failing call
        from . import impl as _impl
        sa, sb, skey = [], [], []
        for t in g['types']:
            for a in rx.alphabet(g['templates'][t]):
                sa.append({'multi': [t], 'type': t, 'ops': [[0, 'a', a], [0, 's', 0], [0, 'r', 0], [0, 's', 0]]})
                sb.append({'multi': [t], 'type': t, 'ops': [[0, 'a', a], [0, 'r', 0], [0, 's', 0]]})
        pick = list(range(len(sa)))
        rng.shuffle(pick)
        pick = pick[:700 if quick else 100000]
        ra_ = _impl.run_cases([sa[i] for i in pick])
        rb_ = _impl.run_cases([sb[i] for i in pick])
        n_s = 0
        seen_s = set()
        for i, xa, xb in zip(pick, ra_, rb_):
            if isinstance(xa, dict) or isinstance(xb, dict) or len(xa) != 4 or len(xb) != 3:
                continue
            if hist.norm_st(xa[1]['st']) == 'ok':
                continue                                   # to_string() did not fail: nothing to compare
            n_s += 1
            va, vb = (xa[2]['ord'], xa[2]['uno'], hist.norm_st(xa[3]['st'])), (xb[1]['ord'], xb[1]['uno'], hist.norm_st(xb[2]['st']))
            va = (len(va[0]) if isinstance(va[0], list) else va[0], len(va[1]), va[2])
            vb = (len(vb[0]) if isinstance(vb[0], list) else vb[0], len(vb[1]), vb[2])
            if va != vb and sa[i]['type'] not in seen_s:
                seen_s.add(sa[i]['type'])
                key = 'C10:to_string:' + sa[i]['type']
                rep.finding_or_violation(key, '%s: after a FAILED to_string(%s) the removal of the child leaves (ordered, insertion, next to_string) = %s; without the failed call %s' % (
                    sa[i]['type'], '', va, vb), {'type': sa[i]['type'], 'ops': sa[i]['ops'], 'without_the_failed_call': sb[i]['ops'], 'observed': va, 'expected': vb})
        rep.coverage['failed_to_string_then_remove'] = n_s
        # scripted (3): a failing to_string() just before the add that makes the matcher re-arrange what is attached (c12's orders), and after
        # every other add of such an order; the final to_string() and the views against the same order without any failing call
        from . import c12 as _c12
        pcs = [c for c in _c12.perm_cases(g, rep.seed, 4 if quick else 5, 4 if quick else 20) if c['perm'] != c['arr']]
        rng.shuffle(pcs)
        pcs = pcs[:500 if quick else 6000]
        ta, tb = [], []
        for c in pcs:
            adds = [[0, 'a', o[1]] for o in c['ops'][:-1]]
            k = rng.choice([len(adds) - 1] * 3 + list(range(1, len(adds))))
            ta.append({'multi': [c['type']], 'type': c['type'], 'unchecked_children': True, 'ops': adds[:k] + [[0, 's', 0]] + adds[k:] + [[0, 's', 0]]})
            tb.append({'multi': [c['type']], 'type': c['type'], 'unchecked_children': True, 'ops': adds + [[0, 's', 0]]})
        xa_ = _impl.run_cases(ta)
        xb_ = _impl.run_cases(tb)
        n_t = 0
        seen_t = set()
        for ca, cb, xa, xb in zip(ta, tb, xa_, xb_):
            if isinstance(xa, dict) or isinstance(xb, dict) or len(xa) != len(ca['ops']) or len(xb) != len(cb['ops']):
                continue
            k = [i for i, o in enumerate(ca['ops']) if o[1] == 's'][0]
            if hist.norm_st(xa[k]['st']) == 'ok':
                continue
            n_t += 1
            fa, fb = xa[-1], xb[-1]
            va = (fa.get('ord'), fa.get('uno'), hist.norm_st(fa['st']))
            vb = (fb.get('ord'), fb.get('uno'), hist.norm_st(fb['st']))
            if va != vb and ca['type'] not in seen_t:
                seen_t.add(ca['type'])
                rep.finding_or_violation('C10:to_string-then-add:' + ca['type'], '%s: with a FAILED to_string() after add #%d the history ends in (ordered, insertion, to_string) = %s; without the failed call %s' % (
                    ca['type'], k, va, vb), {'type': ca['type'], 'ops': ca['ops'], 'without_the_failed_call': cb['ops'], 'observed': va, 'expected': vb})
        rep.coverage['failed_to_string_inside_rearranging_orders'] = n_t
        seen = set()
        for c, oi, why, predicted in found:
            key = 'C10:' + matcher.cause_key(c['type'], c['ops'][:oi + 1])
            rp = {'type': c['type'], 'ops': c['ops'][:oi + 1], 'why': why, 'model_predicts': predicted}
            if predicted:
                if key not in seen:
                    seen.add(key)
                    rep.finding_or_violation(key, '%s: %s' % (c['type'], why), rp)
            else:
                rep.violation('%s: %s (the pinned model does not predict this)' % (c['type'], why), rp)
        # a REFUSED value must be refused again: the failed call left nothing behind, in the element or anywhere in the process
        # (every simple type, the battery of C05: strings, enumeration words, numbers around every bound; each constructor call repeated right away)
        from . import stvalues as _stv
        sp, _x = _stv.battery(g, rng, foreign_literals=6 if quick else 40)
        sr = _stv.run_battery(sp)
        n_ref = 0
        seen_r = set()
        for (c_, v_), a in zip(sp, sr):
            if a[0] != 'ok':
                n_ref += 1
                if len(a) > 4 and a[4] != a[0] and c_ not in seen_r:
                    seen_r.add(c_)
                    rep.finding_or_violation('C10:refused-twice:' + c_, '%s(%s) is refused with %s; the same call repeated is %s' % (c_, v_, a[0], a[4]), {'class': c_, 'value': v_, 'first': a[0], 'second': a[4]})
        rep.coverage['refused_values_offered_again'] = n_ref
        n_nested = nested_faults(rep, corp.m, quick)
        corp.coverage({'nested_failing_calls_examined': n_nested, 'failing_operations_in_corpus': nfail, 'failing_operations_examined': len(sites), 'continuation_pairs_run': npairs})
        rep.coverage['evaluations'] += 2 * npairs
    finally:
        corp.close()
    if not res['ok'] or res['forbidden'] or not res['build_ok']:
        if not rep.violations:
            rep.violation('Properties/C10.v no longer checks (theorem %s)' % res['failing'], {'theorem': res['failing'], 'log': res['log'][-3000:]}, found_input=False)
    rep.assumptions += ['continuations are sampled (final check + 3 symbols of the type per failing operation), not all next children',
                        'attribute / value assignment failures are covered by C04 / C05']


def nested_faults(rep, m, quick):
    """failing calls on elements of nested documents (targets that are not children of the receiver: grandchildren, siblings,
    unattached elements; inadmissible adds): the receiver, snapshotted recursively with its serialisation, must not change"""
    from . import docgen, impl as I
    g = m.g
    rng = random.Random(rep.seed * 13 + 5)
    G = docgen.Gen(g, rng)
    names = [n for n in sorted(g['elements']) if (g['elements'][n][0][6:] if g['elements'][n][0].startswith('<anon>') else g['elements'][n][0]) in g['xsd_particles']]
    small = ['pitch', 'step', 'footnote', 'voice', 'duration', 'staff', 'octave', 'level', 'dot', 'tie', 'beam', 'fermata', 'words']
    cases = []
    for name in names:
        for _ in range(2 if quick else 12):
            cases.append({'doc': G.element(name, 0, 3), 'extra': G.element(rng.choice(small), 0, 2)})
    for name in ('note', 'measure', 'attributes', 'direction', 'harmony', 'notations', 'part-list', 'score-part', 'barline', 'print', 'defaults', 'identification', 'score-partwise'):
        for _ in range(10 if quick else 100):
            cases.append({'doc': G.element(name, 0, 4), 'extra': G.element(rng.choice(small), 0, 2)})
    outs = I.run_sharded('c10_nested_runner.py', lambda i, sh: {'seed': rep.seed * 100 + i, 'cases': sh}, cases)
    n = 0
    kinds = {}
    seen = set()
    for sh, res in outs:
        for r in res:
            if 'skip' in r or r.get('raised') is None:
                continue
            n += 1
            if r.get('inv_before') == [] and r.get('inv_after') and ('inv', r['kind'], r['receiver']) not in seen:
                # the damage may be elsewhere in the document (the element that owns the target), not on the receiver
                seen.add(('inv', r['kind'], r['receiver']))
                rep.finding_or_violation('C10:nested-elsewhere:' + r['kind'], '%s.%s(%s) raises %s and leaves the DOCUMENT changed: %s' % (
                    r['receiver'], r['kind'], r['target'], r['raised'], r['inv_after']),
                    {'nested': True, 'kind': r['kind'], 'receiver': r['receiver'], 'target': r['target'], 'raised': r['raised'], 'views_disagree_at': r['inv_after'],
                     'doc': sh[r['case']]['doc'], 'extra': sh[r['case']]['extra']})
            kinds[r['kind']] = kinds.get(r['kind'], 0) + 1
            if not r['same'] and (r['kind'], r['receiver']) not in seen:
                seen.add((r['kind'], r['receiver']))
                rep.finding_or_violation('C10:nested:' + r['kind'], '%s.%s(%s) raises %s and leaves the receiver changed: %s' % (
                    r['receiver'], r['kind'], r['target'], r['raised'], r.get('diff')),
                    {'nested': True, 'kind': r['kind'], 'receiver': r['receiver'], 'target': r['target'], 'raised': r['raised'], 'diff': r.get('diff'),
                     'doc': sh[r['case']]['doc'], 'extra': sh[r['case']]['extra']})
    rep.coverage['nested_failing_calls_by_kind'] = kinds
    return n


def replay(path):
    r = json.load(open(path))
    from . import impl as I
    if r.get('nested'):
        bad = []
        for seed in range(6):
            outs = I.run_sharded('c10_nested_runner.py', lambda i, sh: {'seed': seed, 'cases': sh}, [{'doc': r['doc'], 'extra': r['extra']}])
            bad += [x for x in outs[0][1] if x.get('raised') and not x.get('same')]
        print(json.dumps({'replay': {k: r[k] for k in ('kind', 'receiver', 'target', 'raised', 'diff')}, 'observed_now': bad[:5]}, indent=1)[:3000])
        return 1 if bad else 0
    out = I.run_cases([{'type': r['type'], 'ops': r['ops']}], workers=1)[0]
    print(json.dumps({'replay': r, 'observed_now': out[-2:]}, indent=1, default=str)[:3000])
    return 0
