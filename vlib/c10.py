"""C10 — a failed operation changes nothing.  For every failing operation of every generated history (rejected add /
forward add / replace / remove, and final checks that refuse): the two child views are compared with those before the
call, and a sample of continuations (final check, further adds) is run on the history with and without the failed call.
The implementation is compared with itself; the faithful model only decides whether a difference is a recorded one."""
import json
import random
from . import common as C
from . import matcher, hist


def failed(op, o):
    st = hist.norm_st(o['st'])
    if st != 'ok':
        return True
    return op[0] == 'f' and bool(o.get('req'))


def view(o):
    return (tuple(o['ord']) if isinstance(o['ord'], list) else o['ord'], tuple(o['uno']))


def collect(corp_cases, out, rng, limit):
    """(case index, op index) of failing operations, sampled"""
    sites = []
    for ci, (c, r) in enumerate(zip(corp_cases, out)):
        for oi, (op, o) in enumerate(zip(c['ops'], r)):
            if failed(op, o):
                sites.append((ci, oi))
    rng.shuffle(sites)
    return sites[:limit], len(sites)


def analyse(m, cases, out, mout, sites, rng):
    """returns list of (ci, oi, why, predicted)"""
    res = []
    pairs = []
    for ci, oi in sites:
        c = cases[ci]
        before = view(out[ci][oi - 1]) if oi > 0 else ((), ())
        after = view(out[ci][oi])
        if before != after:
            mb = view(mout[ci][oi - 1]) if oi > 0 else ((), ())
            ma = view(mout[ci][oi])
            res.append((ci, oi, 'child views changed by the failed call: %s -> %s' % (before, after), mb != ma and ma == after))
            continue
        for p in matcher.probes_for(m.g, c['type'], rng):
            pairs.append((ci, oi, p))
    A = [{'type': cases[ci]['type'], 'ops': cases[ci]['ops'][:oi + 1] + [p]} for ci, oi, p in pairs]
    B = [{'type': cases[ci]['type'], 'ops': cases[ci]['ops'][:oi] + [p]} for ci, oi, p in pairs]
    ia, ma = matcher.run_both(m, A)
    ib, mb = matcher.run_both(m, B)
    seen = set()
    for k, (ci, oi, p) in enumerate(pairs):
        if (ci, oi) in seen:
            continue
        sa, sb = matcher.summary(A[k], ia[k]), matcher.summary(B[k], ib[k])
        if sa != sb:
            msa, msb = matcher.summary(A[k], ma[k]), matcher.summary(B[k], mb[k])
            seen.add((ci, oi))
            res.append((ci, oi, 'after the failed call, %s behaves differently: %s, without the failed call: %s' % (p, sa, sb),
                        msa != msb and msa == sa and msb == sb))
    return res, len(pairs)


def sweep_failures(m, cases, io, mo):
    rng = random.Random(12345)
    sites, _ = collect(cases, io, rng, 4000)
    res, _ = analyse(m, cases, io, mo, sites, rng)
    return res


def run(rep):
    res = C.proof_obligations(rep, 'Properties/C10.v')
    quick = rep.tier == 'quick'
    corp = matcher.Corpus(rep, per_type=30 if quick else 200, maxlen=12 if quick else 20)
    try:
        rng = random.Random(rep.seed * 31 + 7)
        sites, nfail = collect(corp.cases, corp.impl, rng, 3000 if quick else 30000)
        found, npairs = analyse(corp.m, corp.cases, corp.impl, corp.model, sites, rng)
        seen = set()
        for ci, oi, why, predicted in found:
            c = corp.cases[ci]
            key = 'C10:' + matcher.cause_key(c['type'], c['ops'][:oi + 1])
            rp = {'type': c['type'], 'ops': c['ops'][:oi + 1], 'why': why, 'model_predicts': predicted}
            if predicted:
                if key not in seen:
                    seen.add(key)
                    rep.finding_or_violation(key, '%s: %s' % (c['type'], why), rp)
            else:
                rep.violation('%s: %s (the pinned model does not predict this)' % (c['type'], why), rp)
        corp.coverage({'failing_operations_in_corpus': nfail, 'failing_operations_examined': len(sites), 'continuation_pairs_run': npairs})
        rep.coverage['evaluations'] += 2 * npairs
    finally:
        corp.close()
    if not res['ok'] or res['forbidden'] or not res['build_ok']:
        if not rep.violations:
            rep.violation('Properties/C10.v no longer checks (theorem %s)' % res['failing'], {'theorem': res['failing'], 'log': res['log'][-3000:]}, found_input=False)
    rep.assumptions += ['continuations are sampled (final check + 3 symbols of the type per failing operation), not all next children',
                        'attribute / value assignment failures are covered by C04 / C05']


def replay(path):
    r = json.load(open(path))
    from . import impl as I
    out = I.run_cases([{'type': r['type'], 'ops': r['ops']}], workers=1)[0]
    print(json.dumps({'replay': r, 'observed_now': out[-2:]}, indent=1, default=str)[:3000])
    return 0
