"""C11 — removing a child restores the behaviour without it.  After every successful removal of every generated history
the element is compared with a fresh twin to which only the remaining children were added in the same relative
(insertion) order: both child views by name, the final-check verdict, and acceptance of a sample of further children.
Implementation vs. implementation; the faithful model only decides whether a difference is a recorded one."""
import json
import random
from . import common as C
from . import matcher, hist


def collect(cases, out, rng, limit):
    sites = []
    for ci, (c, r) in enumerate(zip(cases, out)):
        for oi, (op, o) in enumerate(zip(c['ops'], r)):
            if op[0] == 'r' and o['st'] == 'ok':
                sites.append((ci, oi))
    rng.shuffle(sites)
    return sites[:limit], len(sites)


def analyse(m, cases, out, mout, sites, rng):
    pairs = []
    for ci, oi in sites:
        c = cases[ci]
        prefix = {'type': c['type'], 'ops': c['ops'][:oi + 1]}
        names = matcher.id_names(prefix, out[ci][:oi + 1])
        remaining = [names.get(i, '?') for i in out[ci][oi]['uno']]
        if '?' in remaining:
            continue
        twin = [['a', n] for n in remaining]
        for p in matcher.probes_for(m.g, c['type'], rng):
            pairs.append((ci, oi, [p], twin))
        # the history's own continuation (its next adds, up to three): every prefix of it is a probe
        cont = []
        for o in c['ops'][oi + 1:oi + 6]:
            if o[0] != 'a':
                break
            cont.append(o)
            pairs.append((ci, oi, list(cont), twin))
            if len(cont) == 3:
                break
    A = [{'type': cases[ci]['type'], 'ops': cases[ci]['ops'][:oi + 1] + p} for ci, oi, p, t in pairs]
    B = [{'type': cases[ci]['type'], 'ops': t + p} for ci, oi, p, t in pairs]
    ia, ma = matcher.run_both(m, A)
    ib, mb = matcher.run_both(m, B)
    res = []
    seen = set()
    for k, (ci, oi, p, t) in enumerate(pairs):
        if (ci, oi) in seen:
            continue
        sa, sb = matcher.summary(A[k], ia[k]), matcher.summary(B[k], ib[k])
        twin_rejected = any(hist.norm_st(o['st']) != 'ok' for o in ib[k][:len(t)])
        if sa != sb or twin_rejected:
            msa, msb = matcher.summary(A[k], ma[k]), matcher.summary(B[k], mb[k])
            seen.add((ci, oi))
            why = ('the remaining children %s are not even accepted by a fresh element' % [x[1] for x in t]) if twin_rejected else \
                ('after the removal, %s gives %s; a fresh element with the remaining children gives %s' % (p, sa, sb))
            res.append((ci, oi, why, msa == sa and msb == sb))
    return res, len(pairs)


def sweep_failures(m, cases, io, mo):
    rng = random.Random(4321)
    sites, _ = collect(cases, io, rng, 3000)
    res, _ = analyse(m, cases, io, mo, sites, rng)
    return res


def run(rep):
    res = C.proof_obligations(rep, 'Properties/C11.v')
    quick = rep.tier == 'quick'
    corp = matcher.Corpus(rep, per_type=30 if quick else 200, maxlen=12 if quick else 20)
    try:
        rng = random.Random(rep.seed * 17 + 3)
        sites, nrem = collect(corp.cases, corp.impl, rng, 2500 if quick else 25000)
        found, npairs = analyse(corp.m, corp.cases, corp.impl, corp.model, sites, rng)
        seen = set()
        for ci, oi, why, predicted in found:
            c = corp.cases[ci]
            key = 'C11:' + matcher.cause_key(c['type'], c['ops'][:oi + 1])
            rp = {'type': c['type'], 'ops': c['ops'][:oi + 1], 'why': why, 'model_predicts': predicted}
            if predicted:
                if key not in seen:
                    seen.add(key)
                    rep.finding_or_violation(key, '%s: %s' % (c['type'], why), rp)
            else:
                rep.violation('%s: %s (the pinned model does not predict this)' % (c['type'], why), rp)
        corp.coverage({'removals_in_corpus': nrem, 'removals_examined': len(sites), 'twin_pairs_run': npairs})
        rep.coverage['evaluations'] += 2 * npairs
    finally:
        corp.close()
    if not res['ok'] or res['forbidden'] or not res['build_ok']:
        if not rep.violations:
            rep.violation('Properties/C11.v no longer checks (theorem %s)' % res['failing'], {'theorem': res['failing'], 'log': res['log'][-3000:]}, found_input=False)
    rep.assumptions += ['continuations are sampled (final check + 3 symbols per removal)', 'xml_x = None goes through remove() (C15)']


def replay(path):
    r = json.load(open(path))
    from . import impl as I
    out = I.run_cases([{'type': r['type'], 'ops': r['ops']}], workers=1)[0]
    print(json.dumps({'replay': r, 'observed_now': out[-1]}, indent=1, default=str)[:3000])
    return 0
