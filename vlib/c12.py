"""C12 — (a) a multiset of children with exactly one valid arrangement is accepted in every insertion order and
serialised in that arrangement, same-named children in insertion order; (b) a child is never rejected while it can
still be arranged with the children present (checked witness)."""
import itertools
import json
import random
from . import common as C
from . import extract, hist, impl, matcher, rx


def proj_b(op, o):
    return (hist.outcome_class(o['st']), tuple(sorted(o['ord'])) if isinstance(o['ord'], list) else o['ord'])


def perm_cases(g, seed, maxsize, per_type_cap):
    rng = random.Random(seed * 13 + 1)
    cases = []
    for t in g['types']:
        tree = g['templates'][t]
        r = rx.of_tree(tree)
        alpha = rx.alphabet(tree)
        ws = rx.words(r, alpha, maxsize, 40)
        ms = {}
        for w in ws:
            if 2 <= len(w) <= maxsize:
                ms.setdefault(tuple(sorted(w)), w)
        keys = sorted(ms)
        rng.shuffle(keys)
        n = 0
        for k in keys:
            if n >= per_type_cap:
                break
            arr = rx.arrangements(r, list(k), cap=2)
            if len(arr) != 1:
                continue
            perms = sorted(set(itertools.permutations(k)))
            if len(perms) > 24:
                perms = rng.sample(perms, 24)
            for p in perms:
                cases.append({'type': t, 'arr': arr[0], 'perm': list(p), 'ops': [['a', s] for s in p] + [['f', 0]]})
            n += 1
        # orders that force a re-arrangement: a symbol that opens a branch of a choice is added last, after children of other parts
        # of the content model are in place (the add-time re-homing of already attached children has to succeed and lose nothing)
        openers = branch_openers(tree)
        if not openers:
            continue
        ws = rx.words(r, alpha, maxsize + 1, 400)
        ms = {}
        for w in ws:
            if 3 <= len(w) <= maxsize + 1 and any(x in openers for x in w):
                ms.setdefault(tuple(sorted(w)), w)
        keys = sorted(ms)
        rng.shuffle(keys)
        n = 0
        for k in keys:
            if n >= per_type_cap * 2:
                break
            arr = rx.arrangements(r, list(k), cap=2)
            if len(arr) != 1:
                continue
            n += 1
            for o in sorted(set(x for x in k if x in openers)):
                rest = list(k)
                rest.remove(o)
                perms = sorted(set(itertools.permutations(rest)))
                if len(perms) > 8:
                    perms = rng.sample(perms, 8)
                for p in perms:
                    p = list(p) + [o]
                    cases.append({'type': t, 'arr': arr[0], 'perm': p, 'ops': [['a', s] for s in p] + [['f', 0]]})
    return cases


def branch_openers(tree):
    out = set()

    def first_leaf(t):
        if t[0] == 'E':
            return t[1]
        for k in (t[4] if t[0] == 'G' else t[3]):
            x = first_leaf(k)
            if x:
                return x

    def walk(t):
        if t[0] == 'E':
            return
        kids = t[4] if t[0] == 'G' else t[3]
        if t[0] == 'C':
            out.update(x for x in (first_leaf(k) for k in kids) if x)
        for k in kids:
            walk(k)
    walk(tree)
    return out


def verdict_a(case, res):
    for i, o in enumerate(res[:-1]):
        if hist.norm_st(o['st']) != 'ok':
            return 'child #%d <%s> rejected with %s' % (i, case['perm'][i], o['st'])
    last = res[-1]
    if not isinstance(last['ord'], list):
        return 'ordered view raises'
    names = matcher.id_names(case, res)
    got = [names.get(i, '?') for i in last['ord']]
    if got != case['arr']:
        return 'serialised as %s, the only valid arrangement is %s' % (got, case['arr'])
    byname = {}
    for i in last['ord']:
        byname.setdefault(names.get(i), []).append(i)
    if any(v != sorted(v) for v in byname.values()):
        return 'same-named children are not in insertion order'
    return None


def proj_a(case, res):
    return [(hist.outcome_class(o['st']), tuple(o['ord']) if isinstance(o['ord'], list) else o['ord']) for o in res]


def rejected_sites(m, cases, out):
    """rejected plain adds whose child is still compatible (checked witness)"""
    cand = []
    for ci, (c, r) in enumerate(zip(cases, out)):
        names = matcher.id_names(c, r)
        for oi, (op, o) in enumerate(zip(c['ops'], r)):
            if op[0] == 'a' and hist.outcome_class(o['st']) == 'rejected' and isinstance(o['ord'], list):
                cur = [names.get(i, '?') for i in o['uno']]
                if '?' not in cur:
                    cand.append((ci, oi, cur + [op[1]]))
    uniq = {}
    for ci, oi, ms in cand:
        uniq.setdefault((cases[ci]['type'], tuple(sorted(ms))), None)
    wits = []
    for (t, ms) in uniq:
        w = rx.cover_word(rx.of_tree(m.g['templates'][t]), list(ms), limit=3000)
        if w is not None:
            wits.append((t, list(ms), w))
    ok = m.witness(wits)
    for (t, ms, w), v in zip(wits, ok):
        if v:
            uniq[(t, tuple(sorted(ms)))] = w
    bad, seen = [], set()
    for ci, oi, ms in cand:
        w = uniq[(cases[ci]['type'], tuple(sorted(ms)))]
        if w and ci not in seen:
            seen.add(ci)
            bad.append((ci, oi, ms, w))
    return bad, len(cand), len(uniq)


def sweep_failures(m, cases, io, mo):
    bad, _, _ = rejected_sites(m, cases, io)
    out = []
    for ci, oi, ms, w in bad:
        pred = all(proj_b(None, io[ci][k]) == proj_b(None, mo[ci][k]) for k in range(oi + 1))
        out.append((ci, oi, 'rejected although %s can be arranged as %s' % (ms, w), pred))
    return out


def run(rep):
    res = C.proof_obligations(rep, 'Properties/C12.v')
    quick = rep.tier == 'quick'
    corp = matcher.Corpus(rep, per_type=40 if quick else 300, maxlen=12 if quick else 20, mode=1)
    try:
        m = corp.m
        # ---- (b)
        bad, ncand, nuniq = rejected_sites(m, corp.cases, corp.impl)
        seen = set()
        for ci, oi, ms, w in bad:
            c = corp.cases[ci]
            key = 'C12b:' + matcher.cause_key(c['type'], c['ops'][:oi + 1])
            predicted = corp.model_agrees(ci, oi, proj_b)
            rp = {'type': c['type'], 'ops': c['ops'][:oi + 1], 'children_with_new': ms, 'valid_arrangement': w, 'model_predicts': predicted}
            if predicted:
                if key not in seen:
                    seen.add(key)
                    rep.finding_or_violation(key, '%s: child <%s> rejected although %s can be arranged as %s' % (c['type'], c['ops'][oi][1], ms, w), rp)
            else:
                rep.violation('%s: child <%s> rejected although %s can be arranged as %s (the pinned model does not predict this)' % (
                    c['type'], c['ops'][oi][1], ms, w), rp)
        # ---- (a)
        pc = perm_cases(m.g, rep.seed, 4 if quick else 5, 6 if quick else 30)
        acc = m.accepts([(c['type'], c['arr']) for c in pc])
        assert all(acc)
        io = impl.run_cases(pc)
        mo = m.run_py(pc)
        nbad = 0
        for c, a, b in zip(pc, io, mo):
            v = verdict_a(c, a)
            if v is None:
                continue
            nbad += 1
            predicted = proj_a(c, a) == proj_a(c, b)
            key = 'C12a:' + c['type']
            rp = {'type': c['type'], 'ops': c['ops'], 'unique_arrangement': c['arr'], 'why': v, 'model_predicts': predicted}
            if predicted:
                if key not in seen:
                    seen.add(key)
                    rep.finding_or_violation(key, '%s: insertion order %s: %s' % (c['type'], c['perm'], v), rp)
            else:
                rep.violation('%s: insertion order %s: %s (the pinned model does not predict this)' % (c['type'], c['perm'], v), rp)
        corp.coverage({'rejected_adds_examined': ncand, 'distinct_rejected_states': nuniq, 'rejected_but_compatible': len(bad),
                       'permutation_cases': len(pc), 'permutations_not_handled': nbad})
        rep.coverage['evaluations'] += len(pc)
        rep.coverage['traces_validated_against_impl'] += len(pc)
    finally:
        corp.close()
    if not res['ok'] or res['forbidden'] or not res['build_ok']:
        if not rep.violations:
            rep.violation('Properties/C12.v no longer checks (theorem %s)' % res['failing'], {'theorem': res['failing'], 'log': res['log'][-3000:]}, found_input=False)
    rep.assumptions += ['uniqueness of the arrangement is established by exhaustive search over the multiset (Python), the arrangement itself is '
                        'confirmed by the verified matcher', 'compatibility of a rejected child is only ever asserted with a checked witness']


def replay(path):
    r = json.load(open(path))
    out = impl.run_cases([{'type': r['type'], 'ops': r['ops']}], workers=1)[0]
    print(json.dumps({'replay': r, 'observed_now': out[-1]}, indent=1, default=str)[:3000])
    return 0
