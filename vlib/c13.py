"""C13 — element instances are isolated.  Coq: sharing facts read off the code (template copied per element, copied nodes
and leaves fresh, per-instance fields fresh) + class-level state written once.  Tie: (1) histories interleaved over 2-3 live
instances of the same and of different classes vs. the same histories run alone; (2) the same batch of histories, attribute
tables and (simple type, value) verdicts evaluated in one process in two different orders: every result must be independent
of what was built, failed or serialised before it."""
import json
import os
import random
import subprocess
from . import common as C
from . import hist, impl, rx, stvalues


def attr_history_independence(rep):
    """a fresh element's reaction to an attribute value must not depend on what other instances did before (two processes)"""
    outs = {}
    for mode in ('pristine', 'after'):
        r = subprocess.run([C.PY, '-W', 'ignore', os.path.join(C.VERIF, 'corr', 'c13_attr_runner.py'), mode], capture_output=True, text=True, env=C.impl_env(), timeout=1800)
        if r.returncode != 0:
            raise RuntimeError('c13_attr_runner failed: ' + r.stderr[-1500:])
        outs[mode] = json.loads(r.stdout)
    n = 0
    for a in outs['pristine']:
        if a[0] == '<released>' and a[4] != 'ok':
            rep.finding_or_violation('C13:released:' + a[1], '%s: not so (%s)' % (a[1], a[6]), {'probe': a[1], 'observed': a[6]})
    for a, b in zip(outs['pristine'], outs['after']):
        n += 1
        if a != b:
            rep.violation('%s: a fresh element reacts to %s=%s differently after another instance was given %s=%s (alone: %s, afterwards: %s)' % (
                a[0], a[1], a[3], a[1], a[2], a[4:], b[4:]), {'class': a[0], 'attribute': a[1], 'earlier_value_on_another_instance': a[2], 'probe_value': a[3],
                                                                'alone': a[4:], 'after_unrelated_history': b[4:]})
            if len(rep.violations) > 6:
                break
    return n


def run(rep):
    res = C.proof_obligations(rep, 'Properties/C13.v')
    g = json.load(open(os.path.join(C.BUILD, 'gen.json')))
    rng = random.Random(rep.seed * 11 + 13)
    quick = rep.tier == 'quick'
    # ---- (1) interleavings
    types = g['types']
    multi, solos = [], []
    for _ in range(600 if quick else 6000):
        k = rng.choice([2, 2, 3])
        ts = [rng.choice(types)]
        for _i in range(k - 1):
            ts.append(ts[0] if rng.random() < 0.5 else rng.choice(types))
        per = []
        for t in ts:
            tree = g['templates'][t]
            ops = hist.gen_guided(rng, rx.of_tree(tree), rx.alphabet(tree), 9, 2)
            per.append([o for o in ops if o[0] in 'awrqf'])
        # interleave
        cur = [0] * k
        ops = []
        while any(cur[i] < len(per[i]) for i in range(k)):
            i = rng.choice([j for j in range(k) if cur[j] < len(per[j])])
            ops.append([i] + per[i][cur[i]])
            cur[i] += 1
        multi.append({'multi': ts, 'ops': ops})
        for i, t in enumerate(ts):
            solos.append({'multi': [t], 'ops': [[0] + o for o in per[i]]})
    # targeted pairs: an instance that holds a complete word of its content model and passes its final check, THEN a second instance of the same
    # type given the same child names with the first one placed by forward=1 (another branch / repetition of the content model): whatever the
    # second one does alone it must do after the first
    for t in types:
        tree = g['templates'][t]
        if '"C"' not in json.dumps(tree):
            continue
        ws = [w for w in rx.words(rx.of_tree(tree), rx.alphabet(tree), 3, 40) if 1 <= len(w) <= 3]
        rng.shuffle(ws)
        for w in ws[:12 if quick else 60]:
            first = [['a', x] for x in w] + [['f', 0], ['s', 0]]          # 's' = to_string(): the user's path through _final_checks
            second = [['w', w[0], 1]] + [['a', x] for x in w[1:]] + [['f', 0], ['s', 0]]
            # the children themselves are made unchecked, so that to_string() speaks about THIS element's content only
            multi.append({'multi': [t, t], 'ops': [[0] + o for o in first] + [[1] + o for o in second], 'unchecked_children': True})
            solos.append({'multi': [t], 'ops': [[0] + o for o in first], 'unchecked_children': True})
            solos.append({'multi': [t], 'ops': [[0] + o for o in second], 'unchecked_children': True})
    # targeted pairs (2): instance A drives the matcher's re-arrangement search into dead ends (the children of a word, then the openers of the
    # OTHER branches of its choices: mostly rejected), THEN a fresh instance B is given an insertion order that needs a SUCCESSFUL re-arrangement
    # (a child that opens a branch of a choice comes last): B must do after A what it does alone
    from . import c12
    n_pairs2 = 0
    for c in c12.perm_cases(g, rep.seed, 4, 3 if quick else 10):
        tree = g['templates'][c['type']]
        openers = sorted(c12.branch_openers(tree))
        if not c['perm'] or c['perm'][-1] not in openers:
            continue
        others = [o for o in openers if o not in c['perm']][:3]
        if not others:
            continue
        first = [['a', x] for x in c['perm'][:-1]] + [['a', o] for o in others]
        second = [['a', x] for x in c['perm']] + [['f', 0]]
        multi.append({'multi': [c['type'], c['type']], 'ops': [[0] + o for o in first] + [[1] + o for o in second]})
        solos.append({'multi': [c['type']], 'ops': [[0] + o for o in first]})
        solos.append({'multi': [c['type']], 'ops': [[0] + o for o in second]})
        n_pairs2 += 1
    rep.coverage['rearrangement_pairs'] = n_pairs2
    mo = impl.run_cases(multi)
    so = impl.run_cases(solos)
    si = 0
    n_inter = 0
    for c, r in zip(multi, mo):
        k = len(c['multi'])
        per_obs = [[] for _ in range(k)]
        for op, o in zip(c['ops'], r):
            per_obs[op[0]].append(o)
        for i in range(k):
            alone = so[si]
            si += 1
            n_inter += 1
            if per_obs[i] != alone:
                d = next((j for j, (x, y) in enumerate(zip(per_obs[i], alone)) if x != y), None)
                rep.violation('instance #%d (%s) behaves differently when other instances %s are operated on in between' % (i, c['multi'][i], c['multi']),
                              {'case': c, 'instance': i, 'first_difference_at_own_op': d, 'interleaved': per_obs[i][d] if d is not None else None, 'alone': alone[d] if d is not None else None})
                break
    # ---- (2) order independence inside one process
    cases = hist.gen_histories(g, rep.seed, 4 if quick else 30, maxlen=10, mode=2)
    order_a = list(range(len(cases)))
    order_b = list(reversed(order_a))
    ra = impl.run_cases([cases[i] for i in order_a], workers=1)
    rb = impl.run_cases([cases[i] for i in order_b], workers=1)
    n_ord = 0
    for j, i in enumerate(order_b):
        n_ord += 1
        if ra[i] != rb[j]:
            rep.violation('a fresh %s behaves differently depending on what was built before it in the same process' % cases[i]['type'],
                          {'case': cases[i], 'position_in_order_a': i, 'position_in_order_b': j})
            break
    # attribute tables after class use in two orders
    outs = []
    for s in (rep.seed, rep.seed + 1):
        out = os.path.join(C.BUILD, 'lib_c13_%d.json' % s)
        subprocess.run([C.PY, '-W', 'ignore', os.path.join(C.VERIF, 'tr', 'lib.py'), out], env=C.impl_env({'VERIF_DUMP_ORDER': str(s)}), check=True, capture_output=True)
        outs.append(json.load(open(out))['ctypes'])
        os.remove(out)
    for k in outs[0]:
        if outs[0][k]['attrs'] != outs[1][k]['attrs']:
            rep.violation('attribute table of %s depends on the order in which classes were first used' % k, {'type': k, 'a': outs[0][k]['attrs'], 'b': outs[1][k]['attrs']})
    # value verdicts in two orders (one process each)
    pairs, _ = stvalues.battery(g, rng, foreign_literals=12 if quick else 60)
    base = stvalues.run_battery(pairs)
    n_again = 0
    for (c_, v_), a in zip(pairs, base):
        if len(a) > 4 and a[4] != a[0]:
            n_again += 1
            if n_again <= 3:
                rep.violation('%s(%s): %s for one instance, %s for the next instance given the same value' % (c_, v_, a[0], a[4]), {'class': c_, 'value': v_, 'first': a[0], 'second': a[4]})
    perm = list(range(len(pairs)))
    rng.shuffle(perm)
    rev = list(reversed(range(len(pairs))))
    n_val = 0
    for label, order in (('shuffled', perm), ('reversed', rev)):
        other = stvalues.run_battery(pairs, order=order)
        for i, (x, y) in enumerate(zip(base, other)):
            n_val += 1
            if x != y:
                rep.violation('%s(%s): verdict %s in one process history, %s in another (%s order)' % (pairs[i][0], pairs[i][1], x[0], y[0], label),
                              {'class': pairs[i][0], 'value': pairs[i][1], 'verdict_a': x, 'verdict_b': y, 'order': label})
                break
    # deep copies are other instances too: mutate the copy, observe the original, and the other way round (runner shared with C14)
    import json as _json
    from . import extract as _ex
    parents = {}
    for c in g['lib']['classes']:
        if c['type'] in g['templates']:
            parents.setdefault(c['type'], c['name'])
    dc_cases = []
    for t, root in sorted(parents.items())[:: 3 if quick else 1]:
        ws = rx.words(rx.of_tree(g['templates'][t]), rx.alphabet(g['templates'][t]), 3, 6)
        if ws:
            dc_cases.append({'root': root, 'word': rng.choice(ws)})
    r = subprocess.run([C.PY, '-W', 'ignore', os.path.join(C.VERIF, 'corr', 'c14_runner.py')], input=_json.dumps({'seed': rep.seed, 'cases': dc_cases}), capture_output=True,
                       text=True, env=C.impl_env(), timeout=1800)
    if r.returncode != 0:
        raise RuntimeError('c14 runner failed: ' + r.stderr[-1000:])
    n_dc = 0
    for rec in _json.loads(r.stdout):
        if 'independent' in rec:
            n_dc += 1
            if not rec['independent']:
                rep.violation('an element and its deep copy are not isolated: mutating one changes the other (<%s>): %s' % (rec['case']['root'], rec['aliasing'][:3]),
                              {'case': rec['case'], 'aliasing': rec['aliasing'], 'log': rec.get('log')})
    rep.coverage['deep_copy_pairs'] = n_dc
    rep.coverage['attribute_probes_before_and_after_unrelated_history'] = attr_history_independence(rep)
    rep.coverage.update({'evaluations': len(multi) + 2 * len(cases) + 3 * len(pairs), 'distinct_nontrivial': n_inter + n_ord, 'traces_validated_against_impl': len(multi) + len(cases),
                         'interleaved_instances_compared': n_inter, 'histories_in_two_orders': n_ord, 'value_verdicts_in_three_orders': len(pairs),
                         'rule': 'histories of 2-3 live instances (same class with probability 1/2) randomly interleaved, each instance compared with its own history run alone; '
                                 'a batch of histories, all attribute tables and a (simple type, value) battery evaluated in one process in different orders',
                         'samples': [multi[0]]})
    if not res['ok'] or res['forbidden'] or not res['build_ok']:
        if not rep.violations:
            code = json.load(open(os.path.join(C.BUILD, 'code.json')))
            rep.violation('Properties/C13.v no longer checks (theorem %s): sharing facts read from the code: %s' % (res['failing'], code.get('sharing')),
                          {'theorem': res['failing'], 'sharing': code.get('sharing'), 'log': res['log'][-2000:]}, found_input=False)
    rep.assumptions += ['deep copies are C14; threads are C20']


def replay(path):
    print(open(path).read()[:3000])
    return 0
