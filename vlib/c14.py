"""C14 — deep copies are faithful and independent.  Coq: Model/Copy.v (copy rebuilt from the source that tr/code.py reads
off __deepcopy__).  Tie: element trees with attributes given by keyword, dot assignment, changed and removed later, mixed
xsd_check; copy compared with the original; then each side is mutated and the other observed."""
import json
import os
import random
import subprocess
from . import common as C
from . import extract, rx


def run(rep):
    res = C.proof_obligations(rep, 'Properties/C14.v')
    g = json.load(open(os.path.join(C.BUILD, 'gen.json')))
    code = json.load(open(os.path.join(C.BUILD, 'code.json')))
    m = extract.Model()
    try:
        cl = m.classes()
    finally:
        m.close()
    rng = random.Random(rep.seed * 3 + 14)
    quick = rep.tier == 'quick'
    parents = {}
    for c in g['lib']['classes']:
        if c['type'] in cl and cl[c['type']] in ('seq', 'noopt', 'bag'):
            parents.setdefault(c['type'], c['name'])
    cases = []
    for t, root in sorted(parents.items()):
        tree = g['templates'][t]
        ws = [w for w in rx.words(rx.of_tree(tree), rx.alphabet(tree), 4, 30)]
        rng.shuffle(ws)
        for w in ws[:4 if quick else 25]:
            cases.append({'root': root, 'word': w})
    # unchecked roots of types WITHOUT element content (simple / empty / simple-content types) holding children all the same
    leafy = [n for n, t in sorted(g['elements'].items()) if (t[0][6:] if t[0].startswith('<anon>') else t[0]) not in g['xsd_particles']]
    names = sorted(g['sym'])
    for root in rng.sample(leafy, min(len(leafy), 12 if quick else 120)):
        cases.append({'root': root, 'word': [rng.choice(names) for _ in range(rng.randrange(1, 4))], 'unchecked_root': True})
    # elements whose type declares the attribute called `name`, as roots and as children of a parent that admits them
    named = sorted(n for n, t in g['elements'].items() for tt in [t[0][6:] if t[0].startswith('<anon>') else t[0]] if tt in g['ctypes'] and any(a[0] == 'name' for a in g['ctypes'][tt]['attrs']))
    for el in named:
        tt = g['elements'][el][0]
        tt = tt[6:] if tt.startswith('<anon>') else tt
        own = [c['type'] for c in g['lib']['classes'] if c['name'] == el and c['type'] in g['templates']]
        w0 = []
        if own:
            ws = sorted(rx.words(rx.of_tree(g['templates'][own[0]]), rx.alphabet(g['templates'][own[0]]), 3, 10), key=len)
            w0 = ws[0] if ws else []
        cases.append({'root': el, 'word': list(w0)})
        for t, root in sorted(parents.items()):
            if el in rx.alphabet(g['templates'][t]):
                ws = [w for w in rx.words(rx.of_tree(g['templates'][t]), rx.alphabet(g['templates'][t]), 4, 60) if el in w]
                if ws:
                    cases.append({'root': root, 'word': list(min(ws, key=len))})
    # two variants of every fifth case: the later of two same-named children added first with forward=1; a stray child added while checking was off
    extra = []
    for k, c in enumerate(list(cases)):
        if c.get('unchecked_root'):
            continue
        if len(set(c['word'])) < len(c['word']):
            extra.append(dict(c, variant='forward'))
        if k % 5 == 0:
            extra.append(dict(c, variant='stray', stray=rng.choice(names)))
    cases += extra
    n = C.NPROC
    chunks = [cases[i::n] for i in range(n)]
    procs = [subprocess.Popen([C.PY, '-W', 'ignore', os.path.join(C.VERIF, 'corr', 'c14_runner.py')], stdin=subprocess.PIPE, stdout=subprocess.PIPE,
                              stderr=subprocess.PIPE, text=True, env=C.impl_env()) for _ in chunks]
    import threading
    outs = [None] * n

    def feed(i):
        o, e = procs[i].communicate(json.dumps({'seed': rep.seed * 100 + i, 'cases': chunks[i]}), timeout=3000)
        if procs[i].returncode != 0:
            raise RuntimeError(e[-1500:])
        outs[i] = json.loads(o)
    ths = [threading.Thread(target=feed, args=(i,)) for i in range(n)]
    [t.start() for t in ths]
    [t.join() for t in ths]
    recs = [r for o in outs for r in (o or [])]
    if any(o is None for o in outs):
        raise RuntimeError('c14 runner shard failed')
    modes = {}
    nbuilt = 0
    for r in recs:
        if 'build' in r or 'copy_exc' in r:
            if 'copy_exc' in r:
                rep.violation('deepcopy raises %s' % r['copy_exc'], {'case': r['case']})
            continue
        nbuilt += 1
        touched = set()
        for name, plan, unchecked in r['log']:
            for k, md in plan:
                modes[md] = modes.get(md, 0) + 1
                if md in ('dot', 'change', 'remove'):
                    touched.add(md)
        if not r['faithful']:
            key = 'C14:unfaithful:' + ('+'.join(sorted(touched)) if touched else 'untouched')
            rep.finding_or_violation(key, 'deepcopy of <%s> serialises differently from the original (attributes: %s)' % (r['case']['root'], sorted(touched) or 'constructor only'),
                                     {'case': r['case'], 'log': r['log'], 'original': r.get('orig'), 'copy': r.get('copy')})
        if not r['orig_unchanged']:
            rep.violation('deepcopy changed the original <%s>' % r['case']['root'], {'case': r['case'], 'log': r['log']})
        if not r['checks_kept']:
            rep.violation('deepcopy does not keep xsd_check on every node of <%s>' % r['case']['root'], {'case': r['case'], 'log': r['log']})
        nc = r.get('nested_copy')
        if nc and not (nc.get('parent_none') and nc.get('same')):
            rep.violation('deepcopy of a child of <%s>: the copy is not an element on its own (%s)' % (r['case']['root'], nc), {'case': r['case'], 'log': r.get('log'), 'observed': nc})
        if not r['independent']:
            rep.violation('after deepcopy of <%s>, mutating one tree changes the other: %s' % (r['case']['root'], r['aliasing'][:3]), {'case': r['case'], 'log': r['log'], 'aliasing': r['aliasing']})
    rep.coverage.update({'evaluations': len(recs), 'distinct_nontrivial': sum(1 for r in recs if r.get('log') and any(p for _, p, _ in r['log'])),
                         'traces_validated_against_impl': nbuilt, 'attribute_modes': modes, 'deepcopy_source_read_from_code': code.get('deepcopy', {}).get('source') if isinstance(code.get('deepcopy'), dict) else code.get('deepcopy'),
                         'rule': 'roots of the sequence/bag classes with a valid word of children; up to 4 attributes per node applied by keyword / dot / changed / removed; '
                                 '15% of nodes unchecked; copy compared, then up to 6 mutations on each side; non-trivial = tree carrying at least one attribute',
                         'samples': [recs[0]['case'], recs[0].get('log')] if recs else []})
    if not res['ok'] or res['forbidden'] or not res['build_ok']:
        if not rep.violations:
            rep.violation('Properties/C14.v no longer checks (theorem %s): __deepcopy__ is no longer recognised as rebuilding the copy from a copy of the current attributes' % res['failing'],
                          {'theorem': res['failing'], 'deepcopy_ir': code.get('deepcopy'), 'log': res['log'][-2000:]}, found_input=False)
    rep.assumptions += ['children are re-added in serialisation order; types outside the sequence/bag classes inherit C02/C08\'s findings and are not used as roots here']


def replay(path):
    print(open(path).read()[:3000])
    return 0
