"""C15 — shortcut syntax == explicit API.  Coq: the name algebra over all 441 element names and all attribute names.
Tie: twins (one through xml_* / attribute dot assignments, one through add_child / replace_child / remove /
_set_attributes) compared after every step on serialisation, both views, attributes and outcome classes; dot reads
compared with the first same-named child / stored value."""
import json
import os
import random
import subprocess
from . import common as C
from . import rx


def gen_cases(g, rng, per_type, maxlen):
    cases = []
    attrs_by_type = {}
    import sys
    sys.path.insert(0, os.path.join(C.VERIF, 'tr'))
    from schema import cls_name
    for k, v in g['ctypes'].items():
        attrs_by_type[cls_name(k, 'XSDComplexType')] = [a[0].split(':')[-1] for a in v['attrs']]
    names_all = sorted(g['sym'])
    for t in g['types']:
        alpha = rx.alphabet(g['templates'][t])
        at = attrs_by_type.get(t, [])
        for _ in range(per_type):
            sub = rng.sample(alpha, min(len(alpha), rng.choice([2, 3, 4])))
            ops = []
            for _i in range(rng.randrange(2, maxlen)):
                x = rng.random()
                n = rng.choice(sub) if rng.random() < 0.92 else rng.choice(names_all)
                if x < 0.24:
                    ops.append(['a', n])
                elif x < 0.30:
                    # the EXPLICIT API on both twins, in the middle of the shortcut history: replace the first child of that name (or add), remove it
                    ops.append([rng.choice(['R', 'R', 'D']), n])
                    ops.append(['g', n])
                elif x < 0.46:
                    ops.append(['x', n])
                elif x < 0.50:
                    # an element of another class given to the shortcut
                    o = rng.choice([y for y in sub if y != n] or names_all)
                    if o != n:
                        ops.append(['X', n, o])
                elif x < 0.60:
                    ops.append(['n', n])
                elif x < 0.70:
                    ops.append(['v', n])
                elif x < 0.82:
                    ops.append(['g', n])
                elif x < 0.93 and at:
                    ops.append(['A', rng.choice(at), rng.choice(["'yes'", '1', "'#FF0000'", 'None', "'above'", '1.5', "'x'", '0', '0.0', "''", '-1', 'None',
                                                                  "'Arial,  Helvetica'", "'#800080 '", "' x'", "'bar\\tone'", "'two\\nlines'", "'a  b'"])])
                else:
                    ops.append(['G', rng.choice(at + ['no-such'])] if at else ['g', n])
            cases.append({'type': t, 'ops': ops})
    return cases


def run(rep):
    res = C.proof_obligations(rep, 'Properties/C15.v')
    g = json.load(open(os.path.join(C.BUILD, 'gen.json')))
    rng = random.Random(rep.seed * 5 + 15)
    quick = rep.tier == 'quick'
    cases = gen_cases(g, rng, 25 if quick else 200, 10 if quick else 16)
    n = C.NPROC
    chunks = [cases[i::n] for i in range(n)]
    procs = [subprocess.Popen([C.PY, '-W', 'ignore', os.path.join(C.VERIF, 'corr', 'c15_runner.py')], stdin=subprocess.PIPE, stdout=subprocess.PIPE,
                              stderr=subprocess.PIPE, text=True, env=C.impl_env()) for _ in chunks]
    import threading
    outs = [None] * n

    def feed(i):
        o, e = procs[i].communicate(json.dumps(chunks[i]), timeout=3000)
        if procs[i].returncode != 0:
            raise RuntimeError(e[-1500:])
        outs[i] = json.loads(o)
    ths = [threading.Thread(target=feed, args=(i,)) for i in range(n)]
    [t.start() for t in ths]
    [t.join() for t in ths]
    nops = 0
    kinds = {}
    for i in range(n):
        if outs[i] is None:
            raise RuntimeError('c15 runner shard failed')
        for c, rec in zip(chunks[i], outs[i]):
            for oi, (op, r) in enumerate(zip(c['ops'], rec)):
                nops += 1
                kinds[op[0]] = kinds.get(op[0], 0) + 1
                oa, ob = r['ra'], r['rb']
                # same exception class (NameError inside the shortcut surfaces as AttributeError, as documented)
                if oa != ob or not r['same']:
                    why = 'shortcut %s: outcome %s vs explicit %s; states %s' % (op, oa, ob, 'equal' if r['same'] else 'DIFFER')
                    key = 'C15:%s:%s' % (c['type'], op[0])
                    if op[0] in 'AG' and op[1] == 'name':
                        key = 'C15:name-attribute'
                    rep.finding_or_violation(key, '%s: %s' % (c['type'], why), {'type': c['type'], 'ops': c['ops'][:oi + 1], 'why': why, 'a': r['a'], 'b': r['b']})
                    break
    rep.coverage.update({'evaluations': len(cases), 'distinct_nontrivial': len({(c['type'], json.dumps(c['ops'])) for c in cases if any(o[0] in 'xnvX' for o in c['ops'])}),
                         'traces_validated_against_impl': len(cases), 'operations_compared': nops, 'input_distribution': kinds,
                         'rule': 'mixed sequences of add_child, xml_* instance / None / scalar assignments, xml_* reads, attribute assignments and reads on twins '
                                 'of every element-content type; non-trivial = distinct sequence containing a shortcut child assignment',
                         'samples': cases[:2]})
    if not res['ok'] or res['forbidden'] or not res['build_ok']:
        if not rep.violations:
            rep.violation('Properties/C15.v no longer checks (theorem %s)' % res['failing'], {'theorem': res['failing'], 'log': res['log'][-3000:]}, found_input=False)
    rep.assumptions += ['constructor keywords are the same _set_attributes call (C04 exercises them)']


def replay(path):
    print(open(path).read()[:3000])
    return 0
