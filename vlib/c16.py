"""C16 — serialisation well-formed, escaping-safe, deterministic, side-effect free.
Coq: Model/Ser.v (escape/unescape round trips for all strings, no raw markup in escaped output, token-level read(write t) = t).
Tie: strings over the XML Char range in text and attribute positions: a standard parser recovers them and the emitted bytes
equal the extracted model's escaping; twins with / without interleaved to_string calls (shared child included)."""
import json
import os
import random
import subprocess
from . import common as C
from . import extract


def xml_char(rng):
    x = rng.random()
    if x < 0.25:
        return rng.choice([38, 60, 62, 34, 39, 9, 10, 32, 32, 93, 45])
    if x < 0.6:
        return rng.randrange(0x20, 0x7F)
    if x < 0.8:
        return rng.randrange(0xA0, 0xD7FF)
    if x < 0.9:
        return rng.randrange(0xE000, 0xFFFD)
    return rng.randrange(0x10000, 0x10FFFF)


def run(rep):
    res = C.proof_obligations(rep, 'Properties/C16.v')
    rng = random.Random(rep.seed * 9 + 16)
    quick = rep.tier == 'quick'
    strings = [[38], [60], [62], [34], [10], [9], [38, 97, 109, 112, 59], [93, 93, 62], [32, 32, 32], [128512], [60, 33, 45, 45],
               [97, 10, 32, 32, 98], [97, 10, 32, 32, 32, 32, 98, 10, 32, 32, 32, 32, 32, 32, 99], [10, 32, 32, 32, 32, 32, 32], [97, 10, 32, 32, 32, 32, 32, 32, 32, 32, 98]]
    for _ in range(1500 if quick else 30000):
        strings.append([xml_char(rng) for _ in range(rng.randrange(1, 12))])
    for _ in range(200 if quick else 3000):
        strings.append([rng.choice([97, 10, 32, 32, 32, 98, 9]) for _ in range(rng.randrange(4, 16))])
    # strings that survive the library's own value handling unchanged: the token type collapses white space on INPUT (C05), so keep
    # white space only in the xs:string typed text position; attribute position uses white-space-free strings plus explicit cases
    # schema-generated checked elements with shuffled children, to be serialised alone and under unchecked ancestors
    from . import docgen
    g = json.load(open(os.path.join(C.BUILD, 'gen.json')))
    G = docgen.Gen(g, rng)

    def shuffle(n):
        rng.shuffle(n['kids'])
        for k in n['kids']:
            shuffle(k)
    nested = []
    for name in sorted(g['elements']):
        t = g['elements'][name][0]
        t = t[6:] if t.startswith('<anon>') else t
        if t in g['xsd_particles']:
            for _ in range(1 if quick else 8):
                d = G.element(name, 0, 2)
                if len(d['kids']) >= 2:
                    shuffle(d)
                    nested.append(d)
    job = {'seed': rep.seed, 'strings': strings, 'twins': 300 if quick else 5000, 'nested': nested}
    r = subprocess.run([C.PY, '-W', 'ignore', os.path.join(C.VERIF, 'corr', 'c16_runner.py')], input=json.dumps(job), capture_output=True, text=True,
                       env=C.impl_env(), timeout=3000)
    if r.returncode != 0:
        raise RuntimeError('c16 runner failed: ' + r.stderr[-2000:])
    out = json.loads(r.stdout)
    m = extract.Model()
    try:
        et = m.raw(['esc t ' + ' '.join(map(str, s)) for s in strings])
        ea = m.raw(['esc a ' + ' '.join(map(str, s)) for s in strings])
    finally:
        m.close()
    nbad = 0
    for s, rec, mt, ma in zip(strings, out['strings'], et, ea):
        st = ''.join(chr(c) for c in s)
        if 'text_exc' in rec or 'attr_exc' in rec:
            rep.finding_or_violation('C16:exc:%s' % (rec.get('text_exc') or rec.get('attr_exc')), 'string %r is refused / fails to serialise: %s' % (st, rec), {'codepoints': s, 'observed': rec})
            continue
        mt_s = ''.join(chr(int(c)) for c in mt.split(',') if c)
        ma_s = ''.join(chr(int(c)) for c in ma.split(',') if c)
        if not rec['text_ok']:
            nbad += 1
            rep.violation('text %r is not recovered by a standard XML parser from to_string()' % st, {'codepoints': s, 'raw': rec.get('text_raw')})
        elif rec['text_raw'] != mt_s:
            rep.violation('text %r is emitted as %r, the escaping model says %r' % (st, rec['text_raw'], mt_s), {'codepoints': s, 'correspondence': 'ET.tostring <-> Ser.escape_text'}, found_input=False)
        if rec.get('nested_ok') is False or 'nested_exc' in rec:
            rep.violation('text %r nested three levels deep is not recovered from the serialisation of the element / its parent / its grandparent: %s' % (st, rec.get('nested_got') or rec.get('nested_exc')),
                          {'codepoints': s, 'recovered': rec.get('nested_got')})
        if not rec['attr_ok']:
            nbad += 1
            rep.violation('attribute value %r is not recovered by a standard XML parser from to_string()' % st, {'codepoints': s, 'raw': rec.get('attr_raw')})
        elif rec['attr_raw'] != ma_s:
            rep.violation('attribute value %r is emitted as %r, the escaping model says %r' % (st, rec['attr_raw'], ma_s), {'codepoints': s, 'correspondence': 'ET.tostring <-> Ser.escape_attr'}, found_input=False)
    for label, rv, got, ok in out.get('values', []):
        if not ok:
            rep.violation('%s = %s is accepted, a standard parser finds %r in to_string(), not %r' % (label, rv, got, str(eval(rv))), {'position': label, 'value': rv, 'recovered': got})
    rep.coverage['accepted_values_of_every_truthiness'] = len(out.get('values', []))
    for t in out['twins']:
        if not t['same']:
            rep.violation('to_string() calls interleaved with mutations change a later serialisation (scenario seed %d)' % t['seed'], {'scenario_seed': t['seed'], 'diff': t['diff']})
        if t['log']:
            rep.violation('two consecutive to_string() calls differ (scenario seed %d): %s' % (t['seed'], t['log'][:2]), {'scenario_seed': t['seed'], 'log': t['log']})
        if not t['inside']:
            rep.violation('a subtree serialises differently alone and inside its parent (scenario seed %d)' % t['seed'], {'scenario_seed': t['seed']})
    n_nested = n_mixed = 0
    for node, t in zip(nested, out.get('nested', [])):
        if 'skip' in t:
            continue
        n_nested += 1
        if 'exc' in t:
            rep.violation('<%s>: serialising a checked element under unchecked ancestors raises %s' % (node['tag'], t['exc']), {'document_built': node, 'observed': t})
        elif not (t['inside1'] and t['inside2'] and t['stable']):
            rep.violation('<%s> (children supplied in shuffled order) serialises differently alone, inside unchecked ancestors, or again after a deep copy of it was stripped of its attributes (flags %s)' % (node['tag'], {k: t[k] for k in ('inside1', 'inside2', 'stable')}),
                          {'document_built': node, 'alone': t.get('alone'), 'inside': t.get('in'), 'flags': {k: t[k] for k in ('inside1', 'inside2', 'stable')}})
        if 'mixed' in t:
            n_mixed += 1
            if not t['mixed'][2]:
                rep.violation('<%s> with children and the accepted text %r: a standard parser finds the text %r in to_string()' % (node['tag'], t['mixed'][0], t['mixed'][1]),
                              {'document_built': node, 'text_assigned': t['mixed'][0], 'text_recovered': t['mixed'][1]})
    rep.coverage['nested_under_unchecked'] = n_nested
    rep.coverage['text_on_elements_with_children'] = n_mixed
    rep.coverage.update({'evaluations': len(strings) * 2 + len(out['twins']), 'distinct_nontrivial': len({tuple(s) for s in strings if any(c in (38, 60, 62, 34, 9, 10) or c > 127 for c in s)}) + len(out['twins']),
                         'traces_validated_against_impl': len(strings) * 2, 'strings': len(strings), 'twin_scenarios': len(out['twins']),
                         'rule': 'random strings over the XML Char range without CR (25% markup / quote / white-space characters, BMP and non-BMP) in a text and an attribute position; '
                                 'twin scenarios of 3-8 mutations with and without interleaved to_string calls on root and subtrees, 70% with one element shared by two parents',
                         'samples': [strings[11], strings[12]]})
    if not res['ok'] or res['forbidden'] or not res['build_ok']:
        if not rep.violations:
            rep.violation('Properties/C16.v no longer checks (theorem %s)' % res['failing'], {'theorem': res['failing'], 'log': res['log'][-2000:]}, found_input=False)
    rep.assumptions += ['expat / ElementTree are modelled (escaping rules of CPython 3.12), not verified', 'carriage returns are excluded (XML line-end normalisation)',
                        'ET.indent rewrites white-space-only text of elements that have children: excluded by using leaf elements for text']


def replay(path):
    print(open(path).read()[:3000])
    return 0
