"""C17 — write() all-or-nothing; I/O independent of the locale.  Coq: Model/Effects.v over the effect list and open() sites
that tr/code.py reads off the code.  Tie: fault injection (each node of a document failing in turn x 5 prior file states),
and import / write / parse under ASCII (real LC_ALL=C), Latin-1, cp1252 and UTF-8 default text encodings."""
import json
import os
import subprocess
from . import common as C


def runner(mode, extra_env=None, pyargs=()):
    r = subprocess.run([C.PY, '-W', 'ignore'] + list(pyargs) + [os.path.join(C.VERIF, 'corr', 'c17_runner.py'), mode], capture_output=True, text=True,
                       env=C.impl_env(extra_env), timeout=600)
    if r.returncode != 0 or not r.stdout.strip():
        return {'import': 'runner failed: ' + r.stderr[-400:]}
    return json.loads(r.stdout.strip().split('\n')[-1])


def run(rep):
    res = C.proof_obligations(rep, 'Properties/C17.v')
    code = json.load(open(os.path.join(C.BUILD, 'code.json')))
    f = runner('faults')
    if f.get('import') != 'ok':
        raise RuntimeError('fault runner: ' + str(f))
    nf = 0
    for x in f['faults']:
        nf += 1
        where = 'node #%s failing, destination %s' % (x['break_at'], x['prior'])
        if x['raised'] != x['to_string_raises']:
            rep.violation('write() raises %s but to_string() raises %s (%s)' % (x['raised'], x['to_string_raises'], where), {'case': x})
        elif x['raised'] is not None and not x['untouched']:
            rep.finding_or_violation('C17:truncate', 'write() raised %s and left the destination changed (%s -> %s bytes) (%s)' % (x['raised'], x['prior_len'], x['after_len'], where), {'case': x})
        elif x['raised'] is None and not x['exact']:
            rep.finding_or_violation('C17:content', 'write() returned but the file is not declaration + to_string() in UTF-8 (%s bytes) (%s)' % (x['after_len'], where), {'case': x})
    ref = runner('locale:utf-8')
    envs = [('ascii (LC_ALL=C, real)', 'locale:real', {'LC_ALL': 'C', 'LANG': 'C', 'PYTHONCOERCECLOCALE': '0', 'PYTHONUTF8': '0'}, ('-X', 'utf8=0')),
            ('latin-1', 'locale:latin-1', None, ()), ('cp1252', 'locale:cp1252', None, ()), ('ascii (shim)', 'locale:ascii', None, ()), ('utf-8', 'locale:utf-8', None, ())]
    nl = 0
    for label, mode, env, pa in envs:
        r = runner(mode, env, pa)
        for k in ('import', 'write', 'parse', 'schema_digest'):
            nl += 1
            if r.get(k) != ref.get(k):
                rep.finding_or_violation('C17:locale:%s' % k, 'under default text encoding %s: %s gives %s (utf-8: %s)' % (label, k, r.get(k), ref.get(k)),
                                         {'encoding': label, 'step': k, 'observed': r.get(k), 'reference': ref.get(k)})
                break
    if ref.get('import') != 'ok' or ref.get('write') != 'ok' or ref.get('parse') != 'ok':
        rep.violation('write/parse round trip fails under UTF-8: %s' % ref, {'observed': ref})
    rep.coverage.update({'evaluations': nf + nl, 'distinct_nontrivial': nf + nl - 5, 'traces_validated_against_impl': nf + len(envs),
                         'fault_cases': nf, 'encodings': [e[0] for e in envs], 'effect_list_read_from_code': code.get('write_effects'), 'open_sites': code.get('opens'),
                         'exhaustive': True,
                         'rule': 'every node of a 9-node score made to fail its check in turn (plus no failure) x destination absent / empty / shorter / longer / identical; '
                                 'import + write + parse + schema digest under 5 default text encodings; non-trivial = all but the no-failure cases',
                         'samples': f['faults'][:2]})
    if not res['ok'] or res['forbidden'] or not res['build_ok']:
        if not rep.violations:
            rep.violation('Properties/C17.v no longer checks (theorem %s); effect list read from the code: %s' % (res['failing'], code.get('write_effects')),
                          {'theorem': res['failing'], 'write_effects': code.get('write_effects'), 'opens': code.get('opens'), 'log': res['log'][-2000:]}, found_input=False)
    rep.assumptions += ['a crash of the operating system between two write system calls is outside the statement', 'Latin-1 / cp1252 defaults are simulated by '
                        'giving text-mode open() calls without an explicit encoding that encoding (what a process locale does); ASCII is the real LC_ALL=C']


def replay(path):
    print(open(path).read()[:3000])
    return 0
