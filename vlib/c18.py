"""C18 — xsd_check=False switches off structural checking and nothing else.
(1) histories with arbitrary children on unchecked elements of all 441 classes vs. the list machine (Model/Unchecked.v);
(2) valid words (from the schema, confirmed by the verified matcher): unchecked output byte-identical to the checked twin;
(3) trees mixing checked and unchecked nodes vs. the gating model (to_string_ok)."""
import json
import os
import random
import subprocess
from . import common as C
from . import extract, rx


def gen_unchecked(g, rng, n_per_class, maxlen):
    names = sorted(g['sym'])
    etype = {n: (t[0][6:] if t[0].startswith('<anon>') else t[0]) for n, t in g['elements'].items()}
    cases = []
    for elem in names:
        xp = g['xsd_particles'].get(etype.get(elem))
        own = rx.alphabet(xp) if xp else []
        for _ in range(n_per_class):
            ops = []
            cur = []                       # names of the children in insertion order (list semantics)
            for _i in range(rng.randrange(1, maxlen)):
                x = rng.random()
                if x < 0.45:
                    nm = rng.choice(names)
                    ops.append(['a', nm]); cur.append(nm)
                elif x < 0.58:
                    k = rng.randrange(len(cur) + 1)
                    ops.append(['r', k])
                    if k < len(cur):
                        del cur[k]
                elif x < 0.70:
                    k = rng.randrange(len(cur) + 1)
                    nm = rng.choice(names)
                    ops.append(['p', k, nm])
                    if k < len(cur):
                        cur[k] = nm
                elif x < 0.90 and own:
                    # the xml_* shortcut on an unchecked element: assign an element, assign None, read
                    nm = rng.choice(own)
                    y = rng.random()
                    if y < 0.5:
                        if nm in cur:
                            ops.append(['x', nm, 'p%d' % cur.index(nm)])
                        else:
                            ops.append(['x', nm, 'a']); cur.append(nm)
                    elif y < 0.8:
                        if nm in cur:
                            k = cur.index(nm)
                            ops.append(['n', nm, 'r%d' % k]); del cur[k]
                        else:
                            ops.append(['n', nm, 'f'])
                    else:
                        ops.append(['g', nm, 'f'])
                else:
                    ops.append(['s'])
            cases.append({'elem': elem, 'ops': ops})
    return cases


KINDS = ['part', 'measure', 'note', 'pitch']


def gen_tree(rng, kind_i=0, depth=0):
    kind = KINDS[kind_i]
    checked = rng.random() < 0.6
    complete = rng.random() < 0.7
    kids = []
    if kind_i < 3 and depth < 3:
        nk = rng.choice([0, 1, 1, 2]) if kind != 'note' else rng.choice([0, 1])
        for _ in range(nk):
            if checked or rng.random() < 0.6:
                kids.append(gen_tree(rng, kind_i + 1, depth + 1))
            else:
                kids.append(gen_tree(rng, rng.randrange(kind_i + 1, 4), depth + 1))
    if kind == 'note' and not checked:
        pass
    return [kind, checked, complete, kids]


def own_ok(spec):
    kind, checked, complete, kids = spec
    if kind == 'part':
        return complete and any(k[0] == 'measure' for k in kids)
    return complete


def tree_tokens(spec):
    kind, checked, complete, kids = spec
    out = ['N', '1' if checked else '0', '1' if own_ok(spec) else '0', str(len(kids))]
    for k in kids:
        out += tree_tokens(k)
    return out


def run(rep):
    res = C.proof_obligations(rep, 'Properties/C18.v')
    quick = rep.tier == 'quick'
    g = json.load(open(os.path.join(C.BUILD, 'gen.json')))
    extra = {'XSD:' + k: v for k, v in g['xsd_particles'].items()}
    m = extract.Model(extra_templates=extra)
    try:
        rng = random.Random(rep.seed * 7 + 18)
        unc = gen_unchecked(g, rng, 2 if quick else 12, 9 if quick else 14)
        import sys
        sys.path.insert(0, os.path.join(C.VERIF, 'tr'))
        from schema import cls_name
        twins = []
        for key, xp in sorted(g['xsd_particles'].items()):
            t = cls_name(key, 'XSDComplexType')
            if t in g['templates']:
                for w in rx.words(rx.of_tree(xp), rx.alphabet(xp), 4 if quick else 6, 12 if quick else 80):
                    twins.append({'type': t, 'xsd': key, 'word': w})
        assert all(m.accepts([('XSD:' + c['xsd'], c['word']) for c in twins]))
        trees = [gen_tree(rng) for _ in range(400 if quick else 4000)]
        job = {'unchecked': unc, 'twins': twins, 'trees': trees}
        r = subprocess.run([C.PY, '-W', 'ignore', os.path.join(C.VERIF, 'corr', 'c18_runner.py')], input=json.dumps(job),
                           capture_output=True, text=True, env=C.impl_env(), timeout=3000)
        if r.returncode != 0:
            raise RuntimeError('c18 runner failed: ' + r.stderr[-2000:])
        out = json.loads(r.stdout)
        # (1) vs. the list machine
        lines = ['unc ' + ' '.join(o[2] if o[0] in 'xng' else {'a': 'a', 's': 'f'}.get(o[0], o[0]) + (str(o[1]) if o[0] in 'rp' else '') for o in c['ops']) for c in unc]
        mo = m.raw(lines)
        n1 = 0
        for c, a, b in zip(unc, out['unchecked'], mo):
            if isinstance(a, dict):
                rep.finding_or_violation('C18:ctor:%s:%s' % (c['elem'], a['ctor']), 'unchecked %s cannot be constructed: %s' % (c['elem'], a['ctor']), {'elem': c['elem']})
                continue
            exp = [p.split(';') for p in b.split(' | ')]
            for i, (o, (est, eids)) in enumerate(zip(a, exp)):
                eids = [int(x) for x in eids.split(',') if x]
                st = 'nochild' if o['st'] == 'ValueError' and c['ops'][i][0] in 'rp' else o['st']
                why = None
                if st != est:
                    why = 'operation %s on an unchecked element raises %s' % (c['ops'][i], o['st'])
                elif o['uno'] != eids or o['ord'] != eids:
                    why = 'children %s / %s differ from the insertion order %s' % (o['uno'], o['ord'], eids)
                elif o.get('linked') is False:
                    why = 'a child does not point at the element as its parent (or is not one level below it)'
                elif o.get('released') is False:
                    why = 'a child that has left the element still points at it as its parent (its level and indentation follow the former parent)'
                elif 'txt' in o and o['txt'] != o['names']:
                    why = 'serialised children %s differ from insertion order %s' % (o['txt'], o['names'])
                elif o['pr']:
                    why = 'output written'
                if why:
                    n1 += 1
                    key = 'C18:unchecked:%s:%s:%s' % (c['elem'], c['ops'][i][0], o['st']) if st != est else 'C18:unchecked:%s' % c['elem']
                    rep.finding_or_violation(key, 'unchecked <%s>: %s' % (c['elem'], why),
                                             {'elem': c['elem'], 'ops': c['ops'][:i + 1], 'why': why})
                    break
        # (2) byte-identical twins
        n2 = 0
        n2x = 0
        for c, o in zip(twins, out['twins']):
            if o['checked'].startswith('EXC:'):
                continue        # the checked twin does not accept this valid word: that is C02's finding, not C18's
            import xml.etree.ElementTree as ET
            if [ch.tag for ch in ET.fromstring(o['checked'])] != c['word']:
                n2x += 1        # the CHECKED twin does not keep the order supplied: C02's recorded finding (RC5), outside C18
                continue
            if o['checked'] != o['unchecked']:
                n2 += 1
                rep.finding_or_violation('C18:twin:%s' % c['type'], '%s: valid word %s serialises differently with xsd_check=False' % (c['type'], c['word']),
                                         {'type': c['type'], 'word': c['word'], 'checked': o['checked'][:300], 'unchecked': o['unchecked'][:300]})
            if 'unchecked_shortcut' in o and o['unchecked_shortcut'] != o['checked']:
                n2 += 1
                rep.finding_or_violation('C18:twin-shortcut:%s' % c['type'], '%s: valid word %s supplied through the xml_* shortcut to an unchecked element gives %s' % (
                    c['type'], c['word'], o['unchecked_shortcut'][:120]), {'type': c['type'], 'word': c['word'], 'checked': o['checked'][:300], 'unchecked_shortcut': o['unchecked_shortcut'][:300]})
            if any(x != 'None' for x in o.get('absent_reads', [])):
                rep.violation('%s (unchecked): reading an absent possible child through the shortcut gives %s' % (c['type'], o['absent_reads']), {'type': c['type'], 'word': c['word'], 'reads': o['absent_reads']})
        # (3) gating
        exp = m.raw(['gate ' + ' '.join(tree_tokens(t)) for t in trees])
        n3 = 0
        for t, o, e in zip(trees, out['trees'], exp):
            if 'build' in o:
                rep.violation('building a mixed tree failed with %s' % o['build'], {'tree': t})
                continue
            got = '1' if o['to_string'] == 'ok' else '0'
            if got != e:
                n3 += 1
                rep.violation('mixed checked/unchecked tree: to_string %s, the gating model says %s' % (o['to_string'], 'passes' if e == '1' else 'refuses'),
                              {'tree': t, 'observed': o['to_string'], 'model': e})
            got_ic = '1' if o.get('to_string_ic', o['to_string']) == 'ok' else '0'
            if got_ic != e and got == e:
                n3 += 1
                rep.violation('mixed checked/unchecked tree: to_string(intelligent_choice=True) %s, the gating model says %s (plain to_string agrees with the model)' % (
                    o.get('to_string_ic'), 'passes' if e == '1' else 'refuses'), {'tree': t, 'observed': o.get('to_string_ic'), 'model': e})
        nontriv = len({(c['elem'], json.dumps(c['ops'])) for c in unc if len(c['ops']) >= 3}) + len(twins) + sum(1 for t in trees if t[3])
        rep.coverage.update({'evaluations': len(unc) + len(twins) + len(trees), 'distinct_nontrivial': nontriv,
                             'traces_validated_against_impl': len(unc) + len(trees), 'unchecked_histories': len(unc), 'classes': len(g['sym']),
                             'valid_word_twins': len(twins), 'twins_excluded_by_C02_findings': n2x, 'mixed_trees': len(trees), 'mixed_trees_refusing': sum(1 for e in exp if e == '0'),
                             'rule': 'unchecked histories with children of arbitrary classes on every one of the 441 element classes; every valid word '
                                     '(schema, <= length bound) as checked/unchecked twins; random part>measure>note>pitch trees with checked/unchecked and '
                                     'complete/incomplete nodes; non-trivial = history of >= 3 ops, twin, tree with children',
                             'samples': [unc[0], twins[len(twins) // 2], trees[0]]})
    finally:
        m.close()
    if not res['ok'] or res['forbidden'] or not res['build_ok']:
        if not rep.violations:
            rep.violation('Properties/C18.v no longer checks (theorem %s)' % res['failing'], {'theorem': res['failing'], 'log': res['log'][-3000:]}, found_input=False)
    rep.assumptions += ['toggling xsd_check after children exist is outside the property as stated ("created with xsd_check=False")']


def replay(path):
    print(open(path).read()[:3000])
    return 0
