"""C19 — only documented rejection types, no output: every operation of every generated history is classified
(ok / documented rejection / internal error) and its captured stdout+stderr checked; plus a constructor / to_string
sweep over all 441 element classes."""
import json
import os
import subprocess
from . import common as C
from . import matcher, hist


def proj(op, o):
    return (hist.outcome_class(o['st']), bool(o['pr']))


def judge(cases, out):
    bad = []
    for ci, (c, r) in enumerate(zip(cases, out)):
        for oi, (op, o) in enumerate(zip(c['ops'], r)):
            oc = hist.outcome_class(o['st'])
            if oc.startswith('internal') or o['pr'] or not isinstance(o['ord'], list):
                why = ('raises ' + o['st'] if oc.startswith('internal') else '') + (' writes to stdout/stderr' if o['pr'] else '') + \
                      ('' if isinstance(o['ord'], list) else ' get_children raises ' + str(o['ord']))
                bad.append((ci, oi, why.strip()))
                break
    return bad


def sweep_failures(m, cases, io, mo):
    out = []
    for ci, oi, why in judge(cases, io):
        pred = all(proj(None, io[ci][k]) == proj(None, mo[ci][k]) for k in range(oi + 1))
        out.append((ci, oi, why, pred))
    return out


CLASS_SWEEP = r'''
import sys, io, json, contextlib, warnings
warnings.simplefilter('ignore')
with contextlib.redirect_stdout(io.StringIO()):
    from musicxml.xmlelement import xmlelement as XE
DOC = ('XMLElement', 'XMLChildContainer', 'XSD')
sys.path.insert(0, '@CORR@')
with contextlib.redirect_stdout(io.StringIO()):
    import impl_runner as R
    R.init()
out = []
for n in XE.__all__:
    c = getattr(XE, n)
    if not (isinstance(c, type) and issubclass(c, XE.XMLElement)) or c is XE.XMLElement:
        continue
    rec = {'cls': n}
    buf = io.StringIO()
    with contextlib.redirect_stdout(buf), contextlib.redirect_stderr(buf):
        for label, f in (('ctor', lambda: c()), ('ctor_unchecked', lambda: c(xsd_check=False)),
                         ('to_string', lambda: c().to_string()), ('to_string_unchecked', lambda: c(xsd_check=False).to_string()),
                         ('bad_attr', lambda: c(no_such_attribute_='x')), ('bad_dot', lambda: setattr(c(xsd_check=False), 'no_such_thing', 1)),
                         ('get_unknown', lambda: c(xsd_check=False).no_such_thing)):
            try:
                f(); rec[label] = 'ok'
            except Exception as e:
                rec[label] = type(e).__name__
        # misuse through dot names of odd shapes (set a value, unset, read) and children of the wrong kind
        odd = {}
        try:
            kid = sorted(getattr(c(xsd_check=False), 'possible_children_names', None) or ['step'])[0].replace('-', '_')
        except Exception:
            kid = 'step'
        for nm in ('xml_', 'xml__' + kid, 'xml_' + kid + '_', 'xml_' + kid + '__x', 'xml_no_such_child', 'xml_No_Such', 'XML_' + kid, 'xml', 'x' * 3, 'xml_xml_' + kid, '__', 'a-b', ''):
            for chk in (True, False):
                for how, g in (('set', lambda e: setattr(e, nm, 'C')), ('unset', lambda e: setattr(e, nm, None)), ('get', lambda e: getattr(e, nm))):
                    if nm.startswith('__') and how != 'get' or nm == '':
                        continue
                    try:
                        e = c(xsd_check=chk)
                    except Exception:
                        continue
                    try:
                        g(e); st = 'ok'
                    except Exception as ex:
                        st = type(ex).__name__
                    if st not in ('ok', 'AttributeError', 'TypeError', 'ValueError') and not st.startswith(DOC):
                        odd['%s %s xsd_check=%s' % (how, nm, chk)] = st
        for bad_child in (None, 'text', 3, c):
            try:
                c(xsd_check=True).add_child(bad_child); st = 'ok'
            except Exception as ex:
                st = type(ex).__name__
            if st not in ('ok', 'AttributeError', 'TypeError', 'ValueError') and not st.startswith(DOC):
                odd['add_child(%r)' % (bad_child if not isinstance(bad_child, type) else 'a class')] = st
        # odd VALUES for the element's text and for its first attributes
        from fractions import Fraction
        from decimal import Decimal
        ODDV = [float('nan'), float('inf'), -float('inf'), 10 ** 30, -10 ** 30, True, b'x', [], {}, (1,), 1 + 2j, Fraction(1, 3), Decimal('1.5'), '', ' ', 'x' * 300, 0, -1, 1e-300, object]
        for v in ODDV:
            ev = None
            try:
                ev = c(v); st = 'ok'
            except Exception as ex:
                st = type(ex).__name__
            if st not in ('ok', 'AttributeError', 'TypeError', 'ValueError') and not st.startswith(DOC):
                odd['value %r' % (v if not isinstance(v, type) else 'a class',)] = st
            if ev is not None:
                # an odd value that was ACCEPTED has to be serialisable (or refused with a documented error) too
                try:
                    ev.to_string(); st = 'ok'
                except Exception as ex:
                    st = type(ex).__name__
                if st not in ('ok', 'TypeError', 'ValueError') and not st.startswith(DOC) and st != rec.get('to_string'):       # (what the class's plain to_string() raises is recorded above)
                    odd['to_string after value %r' % (v if not isinstance(v, type) else 'a class',)] = st
        try:
            e0 = c(xsd_check=False)
            names = [a.name for a in c.TYPE.get_xsd_attributes()][:4] if c.TYPE.get_xsd_tree().is_complex_type else []
        except Exception:
            e0, names = None, []
        for an in names:
            if not an:
                continue
            for v in ODDV:
                try:
                    setattr(e0, an.replace('-', '_'), v); st = 'ok'
                except Exception as ex:
                    st = type(ex).__name__
                if st not in ('ok', 'AttributeError', 'TypeError', 'ValueError') and not st.startswith(DOC):
                    odd['attribute %s=%r' % (an, v if not isinstance(v, type) else 'a class')] = st
                if st == 'ok':
                    try:
                        e0.to_string(); st = 'ok'
                    except Exception as ex:
                        st = type(ex).__name__
                    if st not in ('ok', 'TypeError', 'ValueError') and not st.startswith(DOC) and st != rec.get('to_string_unchecked'):
                        odd['to_string after attribute %s=%r' % (an, v if not isinstance(v, type) else 'a class')] = st
        # misuse of remove(): the same child twice, an element that was never attached, a child of another element.
        # (an AttributeError is documented for unknown dot names only: here it is an internal error)
        try:
            e = c()
            got = None
            for k in sorted(getattr(e, 'possible_children_names', None) or [])[:8]:
                try:
                    ch = R.make(k); e.add_child(ch); got = (k, ch); break
                except Exception:
                    continue
            if got:
                k, ch = got
                def remove_calls():
                    yield 'remove(child) twice', lambda: (e.remove(ch), e.remove(ch))
                    yield 'remove(never attached)', lambda: e.remove(R.make(k))
                    o = c(); ch2 = R.make(k); o.add_child(ch2)
                    yield 'remove(child of another element)', lambda: e.remove(ch2)
                    yield 'replace_child(never attached, new)', lambda: e.replace_child(R.make(k), R.make(k))
                for label, f in remove_calls():
                    try:
                        f(); st = 'ok'
                    except Exception as ex:
                        st = type(ex).__name__
                    if st not in ('ok', 'TypeError', 'ValueError') and not st.startswith(DOC):
                        odd[label] = st
        except Exception:
            pass
        # the public xsd_check switch flipped on elements that already hold children (added checked or unchecked), then ordinary use
        try:
            for start in (False, True):
                e = c(xsd_check=start)
                added = 0
                for k in sorted(getattr(c(xsd_check=False), 'possible_children_names', None) or [])[:6]:
                    try:
                        e.add_child(R.make(k)); added += 1
                    except Exception:
                        continue
                    if added >= 2:
                        break
                for label, f in (('xsd_check=%s with %d children' % (not start, added), lambda: setattr(e, 'xsd_check', not start)),
                                 ('xsd_check back to %s' % start, lambda: setattr(e, 'xsd_check', start)),
                                 ('xsd_check=True again', lambda: setattr(e, 'xsd_check', True)),
                                 ('get_children after the switch', lambda: e.get_children()),
                                 ('to_string after the switch', lambda: e.to_string())):
                    try:
                        f(); st = 'ok'
                    except Exception as ex:
                        st = type(ex).__name__
                    if st not in ('ok', 'TypeError', 'ValueError') and not st.startswith(DOC):
                        if label.startswith('to_string'):
                            # control: the same children without any switch (a child whose own serialisation fails is recorded elsewhere)
                            try:
                                e2 = c(xsd_check=True)
                                for ch in e.get_children():
                                    try:
                                        e2.add_child(R.make(ch.name))
                                    except Exception:
                                        pass
                                e2.to_string(); st2 = 'ok'
                            except Exception as ex2:
                                st2 = type(ex2).__name__
                            if st2 == st:
                                continue
                        odd[label] = st
        except Exception:
            pass
        rec['odd'] = odd
    rec['printed'] = bool(buf.getvalue())
    if rec['printed']:
        rec['printed_text'] = buf.getvalue()[:300]
    out.append(rec)
json.dump(out, sys.stdout)
'''

DOC_OK = ('ok', 'TypeError', 'ValueError', 'AttributeError')


def class_sweep(rep):
    r = subprocess.run([C.PY, '-W', 'ignore', '-c', CLASS_SWEEP.replace('@CORR@', os.path.join(C.VERIF, 'corr'))], capture_output=True, text=True, env=C.impl_env(), timeout=600)
    if r.returncode != 0:
        raise RuntimeError('class sweep failed: ' + r.stderr[-1500:])
    recs = json.loads(r.stdout)
    n = 0
    if r.stderr.strip():
        rep.violation('the class sweep wrote to file descriptor 2 behind sys.stderr: %r' % r.stderr[:200], {'stderr': r.stderr[:2000]})
    for rec in recs:
        for label in ('ctor', 'ctor_unchecked', 'to_string', 'to_string_unchecked', 'bad_attr', 'bad_dot', 'get_unknown'):
            n += 1
            st = rec[label]
            oc = hist.outcome_class(st)
            internal = oc.startswith('internal') and st not in DOC_OK
            # an AttributeError is documented only for an unknown dot name
            if st == 'AttributeError' and label not in ('bad_dot', 'get_unknown', 'bad_attr'):
                internal = True
            if internal:
                rep.finding_or_violation('C19:class:%s:%s' % (rec['cls'], st), '%s: %s raises %s' % (rec['cls'], label, st),
                                         {'class': rec['cls'], 'call': label, 'raises': st})
        for call, st in sorted(rec.get('odd', {}).items()):
            n += 1
            rep.finding_or_violation('C19:misuse:%s:%s' % (call.split(' xsd_check')[0].split('=')[0].split(' ')[0] + ('-' + call.split(' ')[1].split('=')[0] if call.startswith('attribute') else ''), st), '%s: %s raises %s' % (rec['cls'], call, st), {'class': rec['cls'], 'call': call, 'raises': st})
        if rec['printed']:
            rep.violation('%s writes to stdout/stderr during construction / to_string / misuse / the xsd_check switch: %r' % (rec['cls'], rec.get('printed_text', '')[:160]), {'class': rec['cls'], 'text': rec.get('printed_text')})
    return len(recs), n


def run(rep):
    res = C.proof_obligations(rep, 'Properties/C19.v')
    quick = rep.tier == 'quick'
    corp = matcher.Corpus(rep, per_type=40 if quick else 300, maxlen=14 if quick else 24)
    try:
        bad = judge(corp.cases, corp.impl)
        seen = set()
        for ci, oi, why in bad:
            c = corp.cases[ci]
            key = 'C19:' + matcher.cause_key(c['type'], c['ops'][:oi + 1])
            predicted = corp.model_agrees(ci, oi, proj)
            rp = {'type': c['type'], 'ops': c['ops'][:oi + 1], 'why': why, 'model_predicts': predicted}
            if predicted:
                if key not in seen:
                    seen.add(key)
                    rep.finding_or_violation(key, '%s: %s' % (c['type'], why), rp)
            else:
                rep.violation('%s: %s (the pinned model does not predict this)' % (c['type'], why), rp)
        diffs = corp.correspondence(proj)
        badset = {ci for ci, _, _ in bad}
        broken = [(ci, oi) for ci, oi in diffs if ci not in badset][:6]
        if broken:
            matcher.report_broken_correspondence(rep, corp.m, [(corp.cases[ci]['type'], corp.cases[ci]['ops'][:oi + 1]) for ci, oi in broken], sweep_failures,
                                                 'impl<->M_py (C19 projection)',
                                                 [{'impl': proj(None, corp.impl[ci][oi]), 'model': proj(None, corp.model[ci][oi])} for ci, oi in broken])
        ncls, ncalls = class_sweep(rep)
        corp.coverage({'operations_classified': sum(len(r) for r in corp.impl), 'classes_swept': ncls, 'class_calls': ncalls,
                       'impl_model_differences': len(diffs)})
    finally:
        corp.close()
    if not res['ok'] or res['forbidden'] or not res['build_ok']:
        if not rep.violations:
            rep.violation('Properties/C19.v no longer checks (theorem %s)' % res['failing'], {'theorem': res['failing'], 'log': res['log'][-3000:]}, found_input=False)
    rep.assumptions += ['hangs: every implementation run is under a subprocess timeout; no per-call bound is measured',
                        'value / attribute misuse is classified by C04 and C05']


def replay(path):
    r = json.load(open(path))
    if 'ops' in r:
        from . import impl as I
        out = I.run_cases([{'type': r['type'], 'ops': r['ops']}], workers=1)[0]
        print(json.dumps({'replay': r, 'observed_now': out[-1]}, indent=1, default=str)[:3000])
    else:
        print(json.dumps(r, indent=1)[:3000])
    return 0
