"""C20 — independent documents can be built concurrently from several threads.
Coq: every class-level store of the library (list regenerated from the ast) is a single store of a fully built value, and that
shape is proved safe for all schedules (Model/Threads.v).  Tie / search: systematic two-thread schedules with one pre-emption of
the first thread at each executed library line of functions that touch class-level state (all of them) and a sample of the
others, each schedule in a freshly forked interpreter, compared with the single-threaded results."""
import json
import os
import random
import subprocess
from . import common as C

SCEN = [('XMLMeasure', {'number': '1', 'width': 5}, 'XMLMeasure', {'number': '1', 'width': 5}),
        ('XMLText', {'font_size': 14.5, 'font_family': 'Arial'}, 'XMLWords', {'font_size': 7}),
        ('XMLNote', {'default_x': 1.0}, 'XMLNote', {'print_object': 'no'}),
        ('XMLSound', {'damper_pedal': 'yes'}, 'XMLSound', {'soft_pedal': 50}),
        ('XMLHeelToe' if False else 'XMLHeel', {'substitution': 'yes'}, 'XMLStaccato', {'placement': 'above'}),
        ('XMLMordent', {'long': 'yes'}, 'XMLTrillMark', {'placement': 'above'}),
        ('XMLDirection', {'system': 'only-top'}, 'XMLMeasureNumbering', {'system': 'also-top'}),
        ('XMLSwingType', {}, 'XMLType', {'size': 'cue'}),
        ('XMLScorePart', {'id': 'P1'}, 'XMLPart', {'id': 'P1'}),
        ('XMLBarline', {'location': 'right'}, 'XMLRepeat', {'direction': 'backward'}),
        ('XMLKey', {'number': 1}, 'XMLTime', {'symbol': 'common'}),
        ('XMLSlur', {'type': 'start', 'bezier_x': 1}, 'XMLTied', {'type': 'stop'})]
VALUES = {'XMLText': 'la', 'XMLWords': 'dolce', 'XMLSwingType': 'eighth', 'XMLType': 'quarter', 'XMLMeasureNumbering': 'measure'}


def run(rep):
    res = C.proof_obligations(rep, 'Properties/C20.v')
    code = json.load(open(os.path.join(C.BUILD, 'code.json')))
    quick = rep.tier == 'quick'
    rng = random.Random(rep.seed)
    scen = list(SCEN)
    if not quick:
        scen += [(b, kb, a, ka) for a, ka, b, kb in SCEN]
    n = C.NPROC
    chunks = [scen[i::n] for i in range(n)]
    chunks = [c for c in chunks if c]
    procs = []
    for i, ch in enumerate(chunks):
        ranges = [[st[0][len('musicxml/'):], st[2], st[3]] for st in (code.get('class_level_stores') or []) + (code.get('lazy_instance_stores') or []) + [[x[0], x[1], x[2], x[3]] for x in (code.get('shared_table_mutations') or [])]]
        job = {'ranges': ranges, 'scenarios': [list(x) for x in ch], 'max_points': 40 if quick else 1500, 'must_occurrences': 2 if quick else 3, 'seed': rep.seed * 10 + i, 'values': VALUES}
        p = subprocess.Popen([C.PY, '-W', 'ignore', os.path.join(C.VERIF, 'corr', 'c20_runner.py')], stdin=subprocess.PIPE, stdout=subprocess.PIPE,
                             stderr=subprocess.PIPE, text=True, env=C.impl_env())
        procs.append((p, json.dumps(job)))
    import threading
    outs = [None] * len(procs)

    def feed(i):
        o, e = procs[i][0].communicate(procs[i][1], timeout=3000)
        if procs[i][0].returncode != 0 or not o.strip():
            raise RuntimeError('c20 runner failed: ' + e[-1500:])
        outs[i] = json.loads(o.strip().split('\n')[-1])
    ths = [threading.Thread(target=feed, args=(i,)) for i in range(len(procs))]
    [t.start() for t in ths]
    [t.join() for t in ths]
    if any(o is None for o in outs):
        raise RuntimeError('c20 runner shard failed')
    nsched = sum(o['schedules'] for o in outs)
    sc = [s for o in outs for s in o['scenarios']]
    for o in outs:
        for mm in o['mismatches']:
            if 'error' in mm:
                rep.violation('schedule runner error: %s' % mm['error'], mm)
                continue
            who = 'B' if mm['B_got'] != mm['B_alone'] else 'A'
            key = 'C20:%s' % mm['at'].split(':')[0]
            rep.finding_or_violation(key, 'threads building %s / %s: with thread A pre-empted at %s (line event %d), thread %s obtains %s instead of %s' % (
                mm['A'], mm['B'], mm['at'], mm['k'], who, str(mm[who + '_got'])[:160], str(mm[who + '_alone'])[:100]), mm)
    n_slot = slot_correspondence(rep, code, quick)
    rep.coverage.update({'evaluations': nsched, 'distinct_nontrivial': nsched, 'traces_validated_against_impl': nsched, 'scenarios': sc,
                         'class_level_stores_read_from_code': code.get('class_level_stores'),
                         'rule': 'one pre-emption of thread A at an executed library line of its first use of a class (every line event inside xsd/ modules up to the cap, '
                                 'a sample elsewhere), thread B to completion in the gap, fresh forked interpreter per schedule; every schedule is distinct',
                         'samples': sc[:2]})
    if not res['ok'] or res['forbidden'] or not res['build_ok']:
        if not rep.violations:
            bad = [s for s in (code.get('class_level_stores') or []) if s[-1] != 'SingleStore'] + [s for s in (code.get('lazy_instance_stores') or []) if s[-1] == 'Unsafe']
            rep.violation('Properties/C20.v no longer checks (theorem %s): class-level stores that publish before filling: %s' % (res['failing'], bad),
                          {'theorem': res['failing'], 'publish_then_fill_sites': bad, 'log': res['log'][-2000:]}, found_input=False)
    rep.assumptions += ['CPython: a single attribute store and list.append are atomic; pre-emption between lines only (as the property states)',
                        'schedules with more than one pre-emption are covered by the theorem, not by the search']


def slot_correspondence(rep, code, quick):
    """Model/ClassSlots.v against CPython on the library's own classes: for every class-level store site with a classmethod, groups of real
    classes (ancestor-closed), random sequences of uses in fresh processes; owner_run predicts who holds each returned value and who supplies
    the slot to every class at the end.  A use that returns something else than the same use alone is a violation with its input."""
    from . import extract
    sites = sorted({(st[0], st[1], st[4]) for st in (code.get('class_level_stores') or [])})
    job = {'sites': [list(x) for x in sites], 'seed': rep.seed, 'groups': 14 if quick else 120, 'max_uses': 5}
    r = subprocess.run([C.PY, '-W', 'ignore', os.path.join(C.VERIF, 'corr', 'c20_slots_runner.py')], input=json.dumps(job), capture_output=True, text=True, env=C.impl_env(), timeout=1800)
    if r.returncode != 0:
        raise RuntimeError('c20 slots runner failed: ' + r.stderr[-1500:])
    out = json.loads(r.stdout)
    cases = [c for c in out['cases'] if 'child_error' not in c['impl']]
    m = extract.Model()
    try:
        lines = []
        for c in cases:
            sched = ','.join('%d,%d' % (i, i) for i in range(len(c['uses'])))
            lines.append('slots %d %s %s %s %s' % (len(c['mros']), ' '.join(','.join(map(str, x)) or '-' for x in c['mros']), c['bits'], ','.join(map(str, c['uses'])), sched))
        mo = m.raw(lines) if lines else []
    finally:
        m.close()
    bad = 0
    for c, l in zip(cases, mo):
        show = lambda xs: ','.join('-' if x == -1 else str(x) for x in xs)
        got = show(c['impl']['res']) + ' ; ' + show(c['impl']['looks'])
        order_dep = [(i, u) for i, u in enumerate(c['uses']) if c['impl']['res'][i] != c['alone'][str(u)]]
        if order_dep:
            i, u = order_dep[0]
            bad += 1
            if bad <= 3:
                rep.violation('%s.%s: %s used after %s obtains the value held by %s; used alone in a fresh process it obtains the value held by %s' % (
                    c['site'][0], c['site'][1], c['names'][u], [c['names'][x] for x in c['uses'][:i]],
                    c['names'][c['impl']['res'][i]] if isinstance(c['impl']['res'][i], int) and c['impl']['res'][i] >= 0 else c['impl']['res'][i],
                    c['names'][c['alone'][str(u)]]), dict(c, model=l))
        elif got != l:
            bad += 1
            if bad <= 3:
                rep.violation('class-slot model and implementation disagree on %s (%s): model %s, implementation %s' % (c['names'], c['site'][2], l, got), dict(c, model=l), found_input=False)
    rep.coverage['class_slot_correspondence'] = {'sites': out['sites'], 'sites_without_a_classmethod': out['skipped_sites'], 'sequences_compared': len(cases), 'differences': bad,
                                                'with_a_library_ancestor_in_the_group': sum(1 for c in cases if any(len(x) > 1 for x in c['mros']))}
    return len(cases)


def replay(path):
    print(open(path).read()[:3000])
    return 0
