"""Shared machinery of ./check: regeneration + Coq build, property-file compilation with Print Assumptions parsing,
evidence / replay / known-finding handling."""
import fcntl
import hashlib
import json
import os
import re
import subprocess
import sys
import time

VERIF = os.path.dirname(os.path.dirname(os.path.abspath(__file__)))
REPO = os.environ.get('VERIF_REPO', '/repo')
PY = os.environ.get('VERIF_PY', '/venv/bin/python')
COQ = os.path.join(VERIF, 'coq')
BUILD = os.path.join(VERIF, 'build')
NPROC = int(os.environ.get('VERIF_JOBS', '16'))
GUARD = 'MUSICXML_VERIF'


def impl_env(extra=None):
    env = dict(os.environ, PYTHONPATH=REPO, PYTHONHASHSEED='0', PYTHONDONTWRITEBYTECODE='1')
    env[GUARD] = '1'
    if extra:
        env.update(extra)
    return env


def sh(cmd, timeout=None, cwd=None, env=None, input=None):
    t0 = time.time()
    try:
        r = subprocess.run(cmd, cwd=cwd, env=env, input=input, capture_output=True, text=True, timeout=timeout)
        return r.returncode, r.stdout, r.stderr, time.time() - t0
    except subprocess.TimeoutExpired as e:
        out = e.stdout.decode() if isinstance(e.stdout, bytes) else (e.stdout or '')
        err = e.stderr.decode() if isinstance(e.stderr, bytes) else (e.stderr or '')
        return 124, out, err + '\nTIMEOUT', time.time() - t0


class Lock:
    def __init__(self, name='build'):
        os.makedirs(BUILD, exist_ok=True)
        self.path = os.path.join(BUILD, name + '.lock')

    def __enter__(self):
        self.f = open(self.path, 'w')
        fcntl.flock(self.f, fcntl.LOCK_EX)
        return self

    def __exit__(self, *a):
        fcntl.flock(self.f, fcntl.LOCK_UN)
        self.f.close()


def lib_vfiles():
    """all .v files except Properties/ (those are compiled by the checks themselves, with their output captured)"""
    out = []
    for d in ('Spec', 'Gen', 'Model'):
        p = os.path.join(COQ, d)
        if os.path.isdir(p):
            for f in sorted(os.listdir(p)):
                if f.endswith('.v'):
                    out.append(d + '/' + f)
    return out


def regenerate():
    rc, out, err, _ = sh([sys.executable, os.path.join(VERIF, 'tr', 'gen.py')], timeout=300)
    if rc != 0:
        raise BuildError('translator failed (tr/gen.py):\n' + (out + err)[-3000:])
    out2 = ''
    if os.path.exists(os.path.join(VERIF, 'tr', 'code.py')):
        rc, out2, err2, _ = sh([sys.executable, os.path.join(VERIF, 'tr', 'code.py')], timeout=300)
        if rc != 0:
            raise BuildError('translator failed (tr/code.py):\n' + (out2 + err2)[-3000:])
    return out + out2


class BuildError(Exception):
    pass


def build(targets=None, timeout=1500):
    """regenerate L1, then make the requested .vo targets (default: everything outside Properties/). Returns (ok, log)."""
    with Lock():
        gen_log = regenerate()
        files = lib_vfiles()
        stamp = os.path.join(COQ, '.filelist')
        cur = '\n'.join(files)
        mk = os.path.join(COQ, 'Makefile.coq')
        if not os.path.exists(mk) or not os.path.exists(stamp) or open(stamp).read() != cur:
            rc, out, err, _ = sh(['coq_makefile', '-f', '_CoqProject'] + files + ['-o', 'Makefile.coq'], cwd=COQ, timeout=120)
            if rc != 0:
                raise BuildError('coq_makefile failed: ' + err[-2000:])
            open(stamp, 'w').write(cur)
        tg = targets if targets else [f[:-2] + '.vo' for f in files]
        rc, out, err, dt = sh(['make', '-f', 'Makefile.coq', '-k', '-j%d' % NPROC] + tg, cwd=COQ, timeout=timeout)
        log = gen_log + out + err
        return rc == 0, log


AX_RE = re.compile(r'^(Closed under the global context|Axioms:)', re.M)


def compile_property(relpath, timeout=900):
    """coqc a Properties/*.v file, return dict(ok, log, theorems=[(kind,name)], assumptions={name: text})"""
    src = open(os.path.join(COQ, relpath), encoding='utf-8').read()
    rc, out, err, dt = sh(['coqc', '-Q', '.', 'MX', '-w', '-notation-overridden,-deprecated-hint-without-locality', relpath], cwd=COQ, timeout=timeout)
    names = re.findall(r'^\s*(Theorem|Example|Lemma|Corollary)\s+([A-Za-z0-9_\']+)', src, re.M)
    pa = re.findall(r'^\s*Print Assumptions\s+([A-Za-z0-9_\'.]+)\s*\.', src, re.M)
    # split the output into assumption blocks, in order
    blocks = []
    cur = None
    for line in out.splitlines():
        if line.startswith('Closed under the global context'):
            if cur is not None:
                blocks.append(cur)
                cur = None
            blocks.append('Closed under the global context')
        elif line.startswith('Axioms:'):
            if cur is not None:
                blocks.append(cur)
            cur = 'Axioms:'
        elif cur is not None and (line.startswith(' ') or line.strip() == ''):
            cur += '\n' + line
        else:
            if cur is not None:
                blocks.append(cur)
                cur = None
    if cur is not None:
        blocks.append(cur)
    assumptions = {n: (blocks[i] if i < len(blocks) else 'MISSING') for i, n in enumerate(pa)}
    failing = None
    if rc != 0:
        m = re.search(r'File "[^"]*", line (\d+)', err)
        if m:
            ln = int(m.group(1))
            # theorem enclosing that line
            best = None
            for mm in re.finditer(r'^\s*(Theorem|Example|Lemma|Corollary)\s+([A-Za-z0-9_\']+)', src, re.M):
                if src.count('\n', 0, mm.start()) + 1 <= ln:
                    best = mm.group(2)
            failing = best
    return {'ok': rc == 0, 'log': out + err, 'theorems': names, 'assumptions': assumptions, 'failing': failing, 'wall': dt}


def forbidden_scan():
    """no Admitted/admit/Axiom/Parameter/... anywhere in the hand-written development"""
    bad = []
    pat = re.compile(r'\b(Admitted|admit|Axiom|Axioms|Parameter|Parameters|Conjecture|Abort All|Unset Guard Checking|bypass_check|Admit Obligations)\b')
    for d in ('Spec', 'Model', 'Properties', 'Extract'):
        p = os.path.join(COQ, d)
        for f in sorted(os.listdir(p)):
            if f.endswith('.v'):
                txt = open(os.path.join(p, f), encoding='utf-8').read()
                txt = re.sub(r'\(\*.*?\*\)', '', txt, flags=re.S)
                for m in pat.finditer(txt):
                    bad.append('%s/%s: %s' % (d, f, m.group(1)))
    return bad


# ---------------- known findings ----------------
def load_known():
    with open(os.path.join(VERIF, 'known_findings.json'), encoding='utf-8') as f:
        return json.load(f)


class Report:
    """collects what a check found; decides exit status; writes evidence."""

    def __init__(self, prop, tier, seed, level='proof'):
        self.prop, self.tier, self.seed, self.level = prop, tier, seed, level
        self.t0 = time.time()
        self.violations = []   # (replay dict, found_input: bool)
        self.known_hits = {}   # finding id -> count
        self.coverage = {}
        self.assumptions = []
        kf = load_known()
        self.known = [f for f in kf.get('findings', []) if f['property'] == prop]

    def violation(self, what, replay, found_input=True):
        os.makedirs(os.path.join(VERIF, 'replays'), exist_ok=True)
        replay = dict(replay, property=self.prop, what=what)
        h = hashlib.sha1(json.dumps(replay, sort_keys=True, default=str).encode()).hexdigest()[:10]
        path = os.path.join('replays', '%s-%s.json' % (self.prop, h))
        with open(os.path.join(VERIF, path), 'w') as f:
            json.dump(replay, f, indent=1, default=str)
        self.violations.append((what, path, found_input))

    def finding_or_violation(self, key, what, replay):
        """key: stable identifier of the failure (e.g. 'attrs:link'). Known iff some recorded finding lists it."""
        for f in self.known:
            if key in f.get('keys', []) or any(re.fullmatch(p, key) for p in f.get('key_patterns', [])):
                self.known_hits[f['id']] = self.known_hits.get(f['id'], 0) + 1
                return True
        self.violation(what, dict(replay, key=key))
        return False

    def finish(self):
        wall = time.time() - self.t0
        for f in self.known:
            if f['id'] in self.known_hits:
                print('KNOWN-FINDING: property=%s %s [%s] (%d occurrence(s) this run)' % (self.prop, f['what'], f['id'], self.known_hits[f['id']]))
        seen = set()
        for what, path, found in self.violations:
            if path in seen:
                continue
            seen.add(path)
            if len(seen) <= 12:
                print('VIOLATION property=%s replay=%s%s' % (self.prop, path, '' if found else ' no-failing-input-found'))
                print('  ' + what[:400])
            elif len(seen) == 13:
                print('  ... further violations are in replays/ and counted below')
        ev = {'property_id': self.prop, 'tier': self.tier, 'seed': self.seed, 'level': self.level,
              'coverage': self.coverage, 'assumptions': self.assumptions, 'wall_s': round(wall, 2),
              'violations': len(seen)}
        os.makedirs(os.path.join(VERIF, 'evidence'), exist_ok=True)
        with open(os.path.join(VERIF, 'evidence', self.prop + '.json'), 'w') as f:
            json.dump(ev, f, indent=1, default=str)
        print('%s %s: %d obligation(s), %d discharged, %d violation(s), %d known finding(s) seen, %.1fs' % (
            self.prop, self.tier, self.coverage.get('obligations', 0), self.coverage.get('discharged', 0), len(seen),
            len(self.known_hits), wall))
        return 1 if seen else 0


def proof_obligations(rep, relpath, extra_oblig=None):
    """build deps + compile the property file; fill proof coverage; return the compile result"""
    ok, log = build()
    res = compile_property(relpath)
    thms = [n for _, n in res['theorems']]
    rep.coverage['obligations'] = len(thms) + (len(extra_oblig) if extra_oblig else 0)
    rep.coverage['discharged'] = (len(thms) if res['ok'] else 0) + (sum(1 for _, v in extra_oblig if v) if extra_oblig else 0)
    rep.coverage['checker_cmd'] = 'cd /verif/coq && make -f Makefile.coq -k (Spec/ Gen/ Model/ Extract/) && coqc -Q . MX ' + relpath
    rep.coverage['theorems'] = thms
    tb = ['Coq 8.16.1 kernel; vm_compute (no native_compute)',
          'translators tr/schema.py, tr/lib.py, tr/code.py, tr/gen.py (regenerate coq/Gen/*.v from /repo on every run)']
    for n, a in res['assumptions'].items():
        tb.append('Print Assumptions %s: %s' % (n, ' '.join(a.split())))
    if rep.tier == 'thorough':
        mod = 'MX.' + relpath[:-2].replace('/', '.')
        rc, out, err, dt = sh(['coqchk', '-silent', '-o', '-Q', '.', 'MX', mod], cwd=COQ, timeout=3600)
        summ = (out + err)
        i = summ.find('CONTEXT SUMMARY')
        tb.append('coqchk -o %s (exit %d, %.0fs): %s' % (mod, rc, dt, ' '.join(summ[i:].split()) if i >= 0 else summ[-400:]))
        rep.coverage['coqchk_exit'] = rc
        if rc != 0:
            res['ok'] = False
            res['failing'] = 'coqchk'
    bad = forbidden_scan()
    if bad:
        tb.append('FORBIDDEN CONSTRUCTS FOUND: ' + '; '.join(bad))
    rep.coverage['trusted_base'] = tb
    res['build_ok'] = ok
    res['build_log'] = log
    res['forbidden'] = bad
    return res
