"""Schema-driven document generator (independent of the library: uses only build/gen.json's schema side).
An abstract document is {'tag', 'type' (complex or simple type name), 'attrs': [[name, text, pyrepr]], 'text': str|None, 'py': repr of the
Python value for the text or None, 'kids': [...]}.  Values are sampled from the schema's simple types."""
import random
from . import rx

XS_NUM = {'xs:decimal', 'xs:integer', 'xs:nonNegativeInteger', 'xs:positiveInteger'}
WORDS = ['a', 'dolce', 'Allegro ma non troppo', 'x y', 'Größe', 'A&B', '<i>', 'q"r', "it's", '12 bars', 'été', 'poco  a  poco', 'two\nlines', 'tab\tsep', 'a \n b']


def sample_cre(r, rng, depth=0):
    k = r[0]
    if k == 'eps':
        return ''
    if k == 'set':
        neg, rs = r[1], r[2]
        if neg:
            for _ in range(50):
                c = rng.choice('abcxyzABC019 _-')
                if not any(lo <= ord(c) <= hi for lo, hi in rs):
                    return c
            return 'q'
        lo, hi = rng.choice([x for x in rs if x[0] < 0x250] or rs)
        hi = min(hi, lo + 40)
        return chr(rng.randint(lo, hi))
    if k == 'cat':
        return ''.join(sample_cre(x, rng, depth + 1) for x in r[1])
    if k == 'alt':
        return sample_cre(rng.choice(r[1]), rng, depth + 1)
    if k == 'rep':
        mn, mx = r[2], r[3]
        n = rng.randint(mn, min(mx if mx is not None else mn + 3, mn + 3))
        return ''.join(sample_cre(r[1], rng, depth + 1) for _ in range(n))
    raise ValueError(k)


class Gen:
    def __init__(self, g, rng):
        self.g, self.rng = g, rng
        self.st = g['stypes']
        self.ct = g['ctypes']
        self.particles = g['xsd_particles']
        import sys, os
        from . import common as C
        sys.path.insert(0, os.path.join(C.VERIF, 'tr'))
        import regex
        self.regex = regex
        # element name -> declared type (partwise)
        self.etype = {n: (t[0][6:] if t[0].startswith('<anon>') else t[0]) for n, t in g['elements'].items()}

    # ---- simple values: returns (text, python repr) ----
    def value(self, t, depth=0):
        rng = self.rng
        if t in ('xs:string',):
            w = rng.choice(WORDS)
            return w, repr(w)
        if t in ('xs:token', 'xs:normalizedString', 'xs:anySimpleType', 'xs:NMTOKEN', 'xs:Name', 'xs:NCName', 'xs:ID', 'xs:IDREF'):
            if t in ('xs:token', 'xs:normalizedString', 'xs:anySimpleType'):
                w = rng.choice(['a', 'dolce', 'two words', 'P1', 'x-1', 'Größe'])
            else:
                w = rng.choice(['P1', 'id1', 'x-1', 'n_2', 'abc'])
            return w, repr(w)
        if t == 'xs:anyURI':
            return 'image.png', repr('image.png')
        if t == 'xs:language':
            w = rng.choice(['en', 'de', 'en-US', 'x-klingon'])
            return w, repr(w)
        if t == 'xs:date':
            return '2000-01-31', repr('2000-01-31')
        if t in XS_NUM:
            return self.number(t, None, None, None)
        d = self.st.get(t)
        if d is None:
            w = 'x'
            return w, repr(w)
        if d['union'] is not None:
            opts = list(d['union']) + [('lit', e) for i in d['inner'] for e in i['enum']]
            o = rng.choice(opts)
            if isinstance(o, tuple):
                return o[1], repr(o[1])
            return self.value(o, depth + 1)
        if d['enum']:
            e = rng.choice(d['enum'])
            return e, repr(e)
        if d['patterns']:
            if d['base'] == 'xs:date':
                return '2000-01-31', repr('2000-01-31')
            ast = self.regex.parse(d['patterns'][0], 'xsd')
            for _ in range(20):
                s = sample_cre(ast, rng)
                if s == s.strip() and '  ' not in s and s != '' or (s == '' and False):
                    break
            # a restriction of a pattern type must also match the base's pattern: resample through the base when there is one
            b = d['base']
            if b in self.st and self.st[b]['patterns']:
                base_ast = self.regex.parse(self.st[b]['patterns'][0], 'xsd')
                import re as _re
            return s, repr(s)
        base = d['base']
        lo = d['minInclusive']; hi = d['maxInclusive']; lox = d['minExclusive']
        if lo is not None or hi is not None or lox is not None:
            return self.number(self.numeric_root(base), lo, hi, lox)
        if d['minLength'] is not None:
            w = rng.choice(['1', 'A', 'intro'])
            return w, repr(w)
        return self.value(base, depth + 1)

    def numeric_root(self, t):
        while t not in XS_NUM and t in self.st and self.st[t]['base']:
            t = self.st[t]['base']
        return t if t in XS_NUM else 'xs:decimal'

    def number(self, root, lo, hi, lox):
        rng = self.rng
        lo_i = int(lo) if lo is not None else (int(lox) + 1 if lox is not None else (1 if root == 'xs:positiveInteger' else (0 if root == 'xs:nonNegativeInteger' else -20)))
        hi_i = int(hi) if hi is not None else lo_i + 40
        if root == 'xs:decimal' and getattr(self, 'exponent_floats', False) and rng.random() < 0.05:
            # floats that Python spells with an exponent (arithmetic residue, very large tenths): str() of them is what gets written and read back.
            # Only where the library's OWN output is re-read (C08): '1e-05' is not in the lexical space of xs:decimal, so C09 does not use them
            v = rng.choice([1e-05, 2.5e-07, 1e+16, 5.551115123125783e-17, -1.5e-06, 1.25e+20])
            if (lox is None or v > float(lox)) and (lo is None or v >= float(lo)) and (hi is None or v <= float(hi)):
                return repr(v), repr(v)
        if root == 'xs:decimal' and rng.random() < 0.6:
            v = round(rng.uniform(lo_i if lox is None else lo_i - 0.5, hi_i), rng.choice([0, 1, 2, 2, 7, 9]))      # up to 9 fractional digits: every one must survive
            if lox is not None and v <= int(lox):
                v = int(lox) + 0.5
            if v < lo_i and lox is None:
                v = float(lo_i)
            if v > hi_i:
                v = float(hi_i)
            return repr(v), repr(v)
        z = rng.randint(lo_i, hi_i)
        if hi is None and root != 'xs:decimal' and rng.random() < 0.08:
            # unbounded integer types: values that no double represents exactly (2**53 + 1, 10**18 + 1, ...)
            z = rng.choice([9007199254740993, 10 ** 18 + 1, 2 ** 64 + 3, 123456789012345678901])
        return str(z), str(z)

    # ---- elements ----
    def element(self, name, depth, maxdepth):
        t = self.etype.get(name)
        node = {'tag': name, 'type': t, 'attrs': [], 'text': None, 'py': None, 'kids': []}
        if t in self.ct:
            c = self.ct[t]
            for an, at, req in c['attrs']:
                if req or self.rng.random() < 0.25:
                    if an.startswith('xlink:'):
                        v = {'xlink:href': 'http://example.org/x', 'xlink:type': 'simple', 'xlink:show': 'replace', 'xlink:actuate': 'onRequest'}.get(an, 'x')
                        node['attrs'].append([an, v, repr(v)])
                        continue
                    if at == '':
                        if an == 'xml:space':
                            node['attrs'].append([an, 'preserve', repr('preserve')])
                        continue
                    txt, py = self.value(at)
                    if at in ('xs:token', 'xs:string') and self.rng.random() < 0.12:
                        txt, py = '', "''"                # the empty string is a value of these types (kind/@text="" means: print no chord suffix)
                    node['attrs'].append([an, txt, py])
            if c['simple']:
                node['text'], node['py'] = self.value(c['simple'])
            p = self.particles.get(t)
            if p:
                r = rx.of_tree(p)
                w = self.word(r, depth >= maxdepth)
                for s in w:
                    node['kids'].append(self.element(s, depth + 1, maxdepth))
        else:
            node['text'], node['py'] = self.value(t)
        return node

    def word(self, r, shortest):
        from .c02 import complete
        rng = self.rng
        w, x = [], r
        if not shortest:
            for _ in range(rng.randrange(0, 5)):
                f = sorted(rx.first(x))
                if not f:
                    break
                a = rng.choice(f)
                w.append(a)
                x = rx.deriv(x, a)
        comp = complete(x)
        return w + (comp or [])


def to_xml(node, indent=0):
    from xml.sax.saxutils import escape, quoteattr
    pad = '  ' * indent
    attrs = ''.join(' %s=%s' % (n, quoteattr(t)) for n, t, _ in node['attrs'])
    if any(n.startswith('xlink:') for n, _, _ in node['attrs']):
        attrs = ' xmlns:xlink="http://www.w3.org/1999/xlink"' + attrs
    tail = escape(node.get('tailtext', ''))
    if not node['kids'] and node['text'] is None:
        return '%s<%s%s />%s\n' % (pad, node['tag'], attrs, tail)
    if not node['kids']:
        return '%s<%s%s>%s</%s>%s\n' % (pad, node['tag'], attrs, escape(node['text']), node['tag'], tail)
    inner = ''.join(to_xml(k, indent + 1) for k in node['kids'])
    return '%s<%s%s>%s\n%s%s</%s>%s\n' % (pad, node['tag'], attrs, escape(node['text']) if node['text'] else '', inner, pad, node['tag'], tail)


def preserves_space(g, t):
    """white space is significant in the lexical space of t (its base chain ends in xs:string)"""
    seen = 0
    while t is not None and seen < 12:
        seen += 1
        if t == 'xs:string':
            return True
        if t in g['ctypes']:
            t = g['ctypes'][t]['simple']
            continue
        if t in g['stypes']:
            t = g['stypes'][t]['base']
            continue
        return False
    return False


def size(node):
    return 1 + sum(size(k) for k in node['kids'])
