"""Running generated documents through corr/doc_runner.py (sharded)."""
import json
import os
import subprocess
import threading
from . import common as C


def run_docs(api=None, xml=None):
    api, xml = api or [], xml or []
    n = C.NPROC
    jobs = [{'api': api[i::n], 'xml': xml[i::n]} for i in range(n)]
    outs = [None] * n

    def work(i):
        if not jobs[i]['api'] and not jobs[i]['xml']:
            outs[i] = {'api': [], 'xml': []}
            return
        r = subprocess.run([C.PY, '-W', 'ignore', os.path.join(C.VERIF, 'corr', 'doc_runner.py')], input=json.dumps(jobs[i]), capture_output=True, text=True,
                           env=C.impl_env(), timeout=3000)
        if r.returncode != 0:
            raise RuntimeError('doc_runner failed: ' + r.stderr[-1500:])
        outs[i] = json.loads(r.stdout)
    ths = [threading.Thread(target=work, args=(i,)) for i in range(n)]
    [t.start() for t in ths]
    [t.join() for t in ths]
    if any(o is None for o in outs):
        raise RuntimeError('doc_runner shard failed')
    ra, rx_ = [None] * len(api), [None] * len(xml)
    for i in range(n):
        for j, v in enumerate(outs[i]['api']):
            ra[i + j * n] = v
        for j, v in enumerate(outs[i]['xml']):
            rx_[i + j * n] = v
    return ra, rx_
