"""Running generated documents through corr/doc_runner.py (sharded)."""
import json
import os
import subprocess
import threading
from . import common as C


def run_docs(api=None, xml=None, n=None, by_tag=False, xml_tags=None):
    """by_tag: documents with the same root tag are parsed by the SAME process, one after the other (state the parser keeps between
    documents is then exercised with every value shape of that element); whole scores are spread"""
    api, xml = api or [], xml or []
    n = n or C.NPROC
    if by_tag:
        import zlib
        where = [(zlib.crc32(d['tag'].encode()) % n) if d['tag'] != 'score-partwise' else (k % n) for k, d in enumerate(api)]
        idx = [[k for k in range(len(api)) if where[k] == i] for i in range(n)]
    else:
        idx = [list(range(i, len(api), n)) for i in range(n)]
    if xml_tags is not None:
        import zlib
        wx = [(zlib.crc32(t.encode()) % n) if t != 'score-partwise' else (k % n) for k, t in enumerate(xml_tags)]
        xidx = [[k for k in range(len(xml)) if wx[k] == i] for i in range(n)]
    else:
        xidx = [list(range(i, len(xml), n)) for i in range(n)]
    jobs = [{'api': [api[k] for k in idx[i]], 'xml': [xml[k] for k in xidx[i]]} for i in range(n)]
    outs = [None] * n

    def work(i):
        if not jobs[i]['api'] and not jobs[i]['xml']:
            outs[i] = {'api': [], 'xml': []}
            return
        r = subprocess.run([C.PY, '-W', 'ignore', os.path.join(C.VERIF, 'corr', 'doc_runner.py')], input=json.dumps(jobs[i]), capture_output=True, text=True,
                           env=C.impl_env(), timeout=3000)
        if r.returncode != 0:
            raise RuntimeError('doc_runner failed: ' + r.stderr[-1500:])
        outs[i] = json.loads(r.stdout)
    ths = [threading.Thread(target=work, args=(i,)) for i in range(n)]
    [t.start() for t in ths]
    [t.join() for t in ths]
    if any(o is None for o in outs):
        raise RuntimeError('doc_runner shard failed')
    ra, rx_ = [None] * len(api), [None] * len(xml)
    for i in range(n):
        for j, v in enumerate(outs[i]['api']):
            ra[idx[i][j]] = v
        for j, v in enumerate(outs[i]['xml']):
            rx_[xidx[i][j]] = v
    return ra, rx_
