"""Extraction of the models + compilation of the OCaml driver (build/extract/driver), and a client for it."""
import json
import os
import shutil
import subprocess
from . import common as C

EXDIR = os.path.join(C.BUILD, 'extract')
DRIVER = os.path.join(EXDIR, 'driver')


def _newest(paths):
    return max((os.path.getmtime(p) for p in paths if os.path.exists(p)), default=0)


def ensure():
    """(re)extract when any model .vo or the driver source is newer than the binary"""
    with C.Lock('extract'):
        deps = [os.path.join(C.COQ, d, f) for d in ('Spec', 'Model', 'Gen') for f in os.listdir(os.path.join(C.COQ, d)) if f.endswith('.vo')]
        deps += [os.path.join(C.COQ, 'Extract', 'Extract.v'), os.path.join(C.COQ, 'Extract', 'driver.ml')]
        if os.path.exists(DRIVER) and os.path.getmtime(DRIVER) >= _newest(deps):
            return
        shutil.rmtree(EXDIR, ignore_errors=True)
        os.makedirs(EXDIR)
        shutil.copy(os.path.join(C.COQ, 'Extract', 'Extract.v'), os.path.join(EXDIR, 'ext.v'))
        shutil.copy(os.path.join(C.COQ, 'Extract', 'driver.ml'), os.path.join(EXDIR, 'driver.ml'))
        rc, out, err, _ = C.sh(['coqc', '-Q', C.COQ, 'MX', 'ext.v'], cwd=EXDIR, timeout=600)
        if rc != 0:
            raise C.BuildError('extraction failed: ' + (out + err)[-2000:])
        mls = sorted(f for f in os.listdir(EXDIR) if (f.endswith('.ml') or f.endswith('.mli')) and f != 'driver.ml')
        rc, out, err, _ = C.sh(['ocamlfind', 'ocamldep', '-sort'] + mls, cwd=EXDIR, timeout=120)
        if rc != 0:
            raise C.BuildError('ocamldep failed: ' + err[-2000:])
        order = out.split()
        rc, out, err, _ = C.sh(['ocamlfind', 'ocamlopt', '-O3', '-w', '-a', '-I', '.'] + order + ['driver.ml', '-o', 'driver'], cwd=EXDIR, timeout=600)
        if rc != 0:
            rc, out, err, _ = C.sh(['ocamlfind', 'ocamlopt', '-w', '-a', '-I', '.'] + order + ['driver.ml', '-o', 'driver'], cwd=EXDIR, timeout=600)
        if rc != 0:
            raise C.BuildError('ocamlopt failed: ' + (out + err)[-3000:])


def tree_tokens(t, g):
    k = t[0]
    mxs = lambda mx: '-1' if mx == 'unbounded' else str(mx)
    if k == 'E':
        return ['E', str(g['sym'][t[1]]), str(t[2]), mxs(t[3])]
    if k == 'G':
        out = ['G', str(g['grp'][t[1]]), str(t[2]), mxs(t[3]), str(len(t[4]))]
        ch = t[4]
    else:
        out = [k, str(t[1]), mxs(t[2]), str(len(t[3]))]
        ch = t[3]
    for c in ch:
        out += tree_tokens(c, g)
    return out


class Model:
    """client of the extracted driver over the library templates of build/gen.json"""

    def __init__(self, extra_templates=None):
        ensure()
        self.g = json.load(open(os.path.join(C.BUILD, 'gen.json')))
        self.types = list(self.g['types'])
        self.trees = dict(self.g['templates'])
        if extra_templates:
            for k, v in extra_templates.items():
                self.types.append(k)
                self.trees[k] = v
        self.tfile = os.path.join(EXDIR, 'templates.%d.txt' % os.getpid())
        with open(self.tfile, 'w') as f:
            for k in self.types:
                f.write(k + ' ' + ' '.join(tree_tokens(self.trees[k], self.g)) + '\n')
        self.idx = {k: i for i, k in enumerate(self.types)}
        self.sym = self.g['sym']
        self.name_of = {v: k for k, v in self.sym.items()}

    def close(self):
        try:
            os.remove(self.tfile)
        except OSError:
            pass

    def raw(self, lines, timeout=3000):
        if not lines:
            return []
        # shard over processes
        n = min(C.NPROC, max(1, len(lines) // 200))
        chunks = [lines[i::n] for i in range(n)]
        procs = [subprocess.Popen([DRIVER, self.tfile], stdin=subprocess.PIPE, stdout=subprocess.PIPE, stderr=subprocess.PIPE, text=True) for _ in chunks]
        import threading
        outs = [None] * n

        def feed(i):
            o, e = procs[i].communicate('\n'.join(chunks[i]) + '\n', timeout=timeout)
            if procs[i].returncode != 0:
                raise RuntimeError('driver failed: ' + e[-1000:])
            outs[i] = o.split('\n')
        ths = [threading.Thread(target=feed, args=(i,)) for i in range(n)]
        for t in ths:
            t.start()
        for t in ths:
            t.join()
        res = [None] * len(lines)
        for i in range(n):
            if outs[i] is None:
                raise RuntimeError('driver shard failed')
            for j, l in enumerate(outs[i][:len(chunks[i])]):
                res[i + j * n] = l
        return res

    def enc_op(self, o):
        k = o[0]
        if k == 'a':
            return 'a%d' % self.sym[o[1]]
        if k == 'w':
            return 'w%d:%d' % (self.sym[o[1]], o[2])
        if k == 'r':
            return 'r%d' % o[1]
        if k == 'p':
            return 'p%d:%d' % (o[1], self.sym[o[2]])
        if k in ('q', 'e', 's'):
            return '%s%d' % (k, o[1])
        if k == 'f':
            return 'f%d' % int(bool(o[1]))
        raise ValueError(o)

    def run_py(self, cases):
        """cases: [{'type':..., 'ops':[...]}]; returns list of per-op dicts {st, pr, ord, uno, req}"""
        lines = ['py %d %s' % (self.idx[c['type']], ' '.join(self.enc_op(o) for o in c['ops'])) for c in cases]
        out = []
        for l, c in zip(self.raw(lines), cases):
            res = []
            if c['ops']:
                for part in l.split(' | '):
                    e, o, u, r, orph = part.split(';')
                    pr = e.endswith('P') and e != 'P'
                    if pr:
                        e = e[:-1]
                    res.append({'st': e, 'pr': pr, 'ord': [int(x) for x in o.split(',') if x], 'uno': [int(x) for x in u.split(',') if x],
                                'req': None if r == '-' else [self.name_of[int(x)] for x in r[1:-1].split(',') if x],
                                'par': [int(x) for x in orph.split(',') if x]})
            out.append(res)
        return out

    def accepts(self, items):
        """items: [(type, [names])] -> [bool]  (verified matcher on the library template; by C03 also the schema language)"""
        lines = ['acc %d %s' % (self.idx[t], ' '.join(str(self.sym[s]) for s in w)) for t, w in items]
        return [x == '1' for x in self.raw(lines)]

    def classes(self):
        out = self.raw(['cls %d' % i for i in range(len(self.types))])
        return dict(zip(self.types, out))

    def run_seq(self, cases):
        lines = ['seq %d %s' % (self.idx[c['type']], ' '.join(self.enc_op(o) for o in c['ops'])) for c in cases]
        out = []
        for l, c in zip(self.raw(lines), cases):
            res = []
            if c['ops']:
                for part in l.split(' | '):
                    e, o, u, r = part.split(';')
                    res.append({'st': e, 'pr': False, 'ord': [int(x) for x in o.split(',') if x], 'uno': [int(x) for x in u.split(',') if x],
                                'req': [self.name_of[int(x)] for x in r[1:-1].split(',') if x]})
            out.append(res)
        return out

    def run_cho(self, cases):
        lines = ['cho %d %s' % (self.idx[c['type']], ' '.join(self.enc_op(o) for o in c['ops'])) for c in cases]
        out = []
        for l, c in zip(self.raw(lines), cases):
            res = []
            if c['ops']:
                for part in l.split(' | '):
                    e, o, u, r = part.split(';')
                    res.append({'st': e, 'pr': False, 'ord': [int(x) for x in o.split(',') if x], 'uno': [int(x) for x in u.split(',') if x],
                                'req': ['<one of the alternatives>' if x == '1' else self.name_of[int(x)] for x in r[1:-1].split(',') if x]})
            out.append(res)
        return out

    def run_docs(self, docs):
        """docs: nested {'tag', 'kids'}; returns per doc ('NOMACHINE', tag) | ('NOPARSE',) | ('NOEMIT',) | ('OK', nested [tag, [kids]])"""
        def enc(d):
            return '%d ( %s)' % (self.sym[d['tag']], ''.join(enc(k) + ' ' for k in d['kids']))

        def dec(toks, i):
            tag = self.name_of[int(toks[i])]
            i += 2
            kids = []
            while toks[i] != ')':
                k, i = dec(toks, i)
                kids.append(k)
            return [tag, kids], i + 1
        out = []
        for l in self.raw(['doc ' + enc(d) for d in docs]):
            if l.startswith('NOMACHINE'):
                out.append(('NOMACHINE', self.name_of[int(l.split()[1])]))
            elif l in ('NOPARSE', 'NOEMIT'):
                out.append((l,))
            else:
                out.append(('OK', dec(l.split(), 0)[0]))
        return out

    def run_vdocs(self, docs, floats):
        """documents WITH text and attributes through the extracted DocValTables.vrun.
        docs: nested {'tag', 'text' (str), 'attrs' [[name, text]], 'kids'}; floats: {text: None | (kind, num, den, repr)} = what Python's float() made of
        every text / attribute value occurring in the documents.  Returns per doc ('NOMACHINE', tag) | (premise, 'NOPARSE') | (premise, 'NOEMIT') |
        (premise, 'OK', nested [tag, text, [[name, value]], kids]);
        premise: 2 = of C09_document_values, 1 = of C09_document_values_general only, 0 = neither"""
        def cps(s):
            return ','.join(str(ord(c)) for c in s) or '-'

        def uncps(t):
            return '' if t == '-' else ''.join(chr(int(x)) for x in t.split(','))

        def texts(d, acc):
            acc.add(d['text'].strip())
            for a in d['attrs']:
                acc.add(a[1])
                acc.add(a[1].strip())
            for k in d['kids']:
                texts(k, acc)

        def enc(d):
            return '%d %s %d %s( %s)' % (self.sym[d['tag']], cps(d['text']), len(d['attrs']), ''.join('%s %s ' % (cps(a[0]), cps(a[1])) for a in d['attrs']),
                                         ''.join(enc(k) + ' ' for k in d['kids']))

        def dec(toks, i):
            tag = self.name_of[int(toks[i])]
            text = uncps(toks[i + 1])
            na = int(toks[i + 2])
            i += 3
            attrs = []
            for _ in range(na):
                attrs.append([uncps(toks[i]), uncps(toks[i + 1])])
                i += 2
            i += 1
            kids = []
            while toks[i] != ')':
                k, i = dec(toks, i)
                kids.append(k)
            return [tag, text, attrs, kids], i + 1
        lines = []
        for d in docs:
            ts = set()
            texts(d, ts)
            ft = []
            for t in sorted(ts):
                f = floats.get(t)
                ft.append('%s %s' % (cps(t), 'x' if f is None else 'f:%s:%d:%d:%s' % (f[0], f[1], f[2], cps(f[3]))))
            lines.append('vdoc %d %s %s' % (len(ft), ' '.join(ft), enc(d)))
        out = []
        for l in self.raw(lines):
            if l.startswith('NOMACHINE'):
                out.append(('NOMACHINE', self.name_of[int(l.split()[1])]))
                continue
            toks = l.split()
            prem = int(toks[0])
            if toks[1] in ('NOPARSE', 'NOEMIT'):
                out.append((prem, toks[1]))
            else:
                out.append((prem, 'OK', dec(toks, 2)[0]))
        return out

    def run_bag(self, cases):
        lines = ['bag %d %s' % (self.idx[c['type']], ' '.join(self.enc_op(o) for o in c['ops'])) for c in cases]
        out = []
        for l, c in zip(self.raw(lines), cases):
            res = []
            if c['ops']:
                for part in l.split(' | '):
                    e, ids, v = part.split(';')
                    ids = [int(x) for x in ids.split(',') if x]
                    res.append({'st': e, 'pr': False, 'ord': ids, 'uno': ids, 'pass': v == '1'})
            out.append(res)
        return out

    def dead(self, items):
        """items: [(type, [names])] -> [bool]: the multiset of children is PROVABLY not extendable to a word (Parikh.dead_sound)"""
        lines = ['dead %d %s' % (self.idx[t], ' '.join(str(self.sym[s]) for s in w)) for t, w in items]
        return [x == '1' for x in self.raw(lines)]

    def witness(self, items):
        """items: [(type, multiset, word)] -> [bool]: word is in the language and dominates the multiset (Parikh.witness_sound)"""
        lines = ['wit %d %s / %s' % (self.idx[t], ' '.join(str(self.sym[s]) for s in m), ' '.join(str(self.sym[s]) for s in w)) for t, m, w in items]
        return [x == '1' for x in self.raw(lines)]
