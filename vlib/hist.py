"""History generators (one PRNG, derived from VERIF_SEED) and the implementation <-> model comparison."""
import collections
import random
from . import rx


def types_of(g):
    return list(g['types'])


def gen_guided(rng, r, alpha, maxlen, mode):
    """mostly valid: the next symbol is drawn from first(current derivative) with probability 0.75"""
    ops = []
    n = 0
    for _ in range(rng.randrange(1, maxlen)):
        x = rng.random()
        if n and x < 0.12:
            ops.append(['r', rng.randrange(n)])
            continue
        if n and x < 0.16 and mode >= 2:
            y = rng.random()
            if mode >= 3 and y < 0.25:
                ops.append([rng.choice('es'), rng.randrange(n)])
            else:
                ops.append(['p', rng.randrange(n), rng.choice(alpha)] if y < 0.7 else ['q', rng.randrange(n)])
            continue
        if x < 0.30:
            ops.append(['f', int(rng.random() < 0.4)])
            continue
        cand = sorted(rx.first(r)) if r != rx.VOID else []
        a = rng.choice(cand) if cand and rng.random() < 0.75 else rng.choice(alpha)
        d = rx.deriv(r, a) if r != rx.VOID else rx.VOID
        if d != rx.VOID:
            r = d
        if x < 0.36 and mode >= 2:
            ops.append(['w', a, rng.randrange(2)])
        else:
            ops.append(['a', a])
        n += 1
    return ops


def gen_uniform(rng, alpha, maxlen, mode):
    sub = rng.sample(alpha, min(len(alpha), rng.choice([2, 3, 4, len(alpha)])))
    ops = []
    n = 0
    for _ in range(rng.randrange(1, maxlen)):
        x = rng.random()
        if n and x < 0.15:
            ops.append(['r', rng.randrange(n)])
        elif n and x < 0.20 and mode >= 2:
            ops.append(['p', rng.randrange(n), rng.choice(sub)])
        elif x < 0.25 and mode >= 2:
            ops.append(['w', rng.choice(sub), rng.randrange(3)])
            n += 1
        elif x < 0.36:
            ops.append(['f', int(rng.random() < 0.4)])
        else:
            ops.append(['a', rng.choice(sub)])
            n += 1
    return ops


def gen_histories(g, seed, per_type, maxlen=14, mode=2, types=None, guided=0.7):
    rng = random.Random(seed)
    cases = []
    for k in (types or g['types']):
        tree = g['templates'][k]
        alpha = rx.alphabet(tree)
        r = rx.of_tree(tree)
        for _ in range(per_type):
            if rng.random() < guided:
                ops = gen_guided(rng, r, alpha, maxlen, mode)
            else:
                ops = gen_uniform(rng, alpha, maxlen, mode)
            cases.append({'type': k, 'ops': ops})
    return cases


def norm_st(st):
    return 'ok' if st == 'skip' else st


DOCUMENTED = ('XMLChildContainerWrongElementError', 'XMLChildContainerMaxOccursError', 'XMLChildContainerChoiceHasAnotherChosenChild',
              'XMLElementChildrenRequired', 'XMLElementCannotHaveChildrenError', 'XSDWrongAttribute', 'XSDAttributeRequiredException')


def outcome_class(st):
    st = norm_st(st)
    if st == 'ok':
        return 'ok'
    if st in DOCUMENTED or st.startswith('XMLElement') or st.startswith('XMLChildContainer') or st.startswith('XSD'):
        return 'rejected'
    return 'internal:' + st


def full_obs(o):
    """everything the faithful model is compared on (pinning correspondence)"""
    return (norm_st(o['st']), bool(o['pr']), tuple(o['ord']) if isinstance(o['ord'], list) else o['ord'], tuple(o['uno']),
            None if o.get('req') is None else tuple(o['req']), tuple(sorted(set(o.get('par', [])))))


def first_diff(impl_ops, model_ops, proj=full_obs):
    """index of the first op whose projected observation differs, or None"""
    for i, (a, b) in enumerate(zip(impl_ops, model_ops)):
        if proj(a) != proj(b):
            return i
    if len(impl_ops) != len(model_ops):
        return min(len(impl_ops), len(model_ops))
    return None


def stats(cases, results):
    c = collections.Counter()
    for case, res in zip(cases, results):
        c['histories'] += 1
        c['ops'] += len(case['ops'])
        for op, o in zip(case['ops'], res):
            c['op_' + op[0]] += 1
            oc = outcome_class(o['st'])
            c['out_' + (oc if not oc.startswith('internal') else 'internal')] += 1
            if o['pr']:
                c['printed'] += 1
    return dict(c)
