"""Running things on the implementation (always in /venv/bin/python subprocesses with PYTHONPATH=/repo)."""
import json
import os
import subprocess
from . import common as C
from . import rx


def run_cases(cases, workers=None, timeout=3000):
    """cases: list of dicts for corr/impl_runner.py; returns list of per-op observation lists"""
    if not cases:
        return []
    inp = '\n'.join(json.dumps(c) for c in cases) + '\n'
    r = subprocess.run([C.PY, '-W', 'ignore', os.path.join(C.VERIF, 'corr', 'impl_runner.py'), str(workers or C.NPROC)],
                       input=inp, capture_output=True, text=True, env=C.impl_env(), timeout=timeout)
    if r.returncode != 0:
        raise RuntimeError('impl_runner failed: ' + r.stderr[-2000:])
    out = [json.loads(l) for l in r.stdout.split('\n') if l.strip()]
    if len(out) != len(cases):
        raise RuntimeError('impl_runner returned %d results for %d cases: %s' % (len(out), len(cases), r.stderr[-500:]))
    return out


def feed_word(key, word):
    """feed a word to the class of complex type `key` (schema name) and return a summary of what the implementation does"""
    import sys
    sys.path.insert(0, os.path.join(C.VERIF, 'tr'))
    from schema import cls_name
    t = cls_name(key, 'XSDComplexType')
    res = run_cases([{'type': t, 'ops': [['a', s] for s in word] + [['f', 0]]}], workers=1)[0]
    if isinstance(res, dict):
        return res
    sts = [o['st'] for o in res]
    return {'outcomes': sts, 'required': res[-1].get('req'), 'ordered': [res[-1]['nm'].get(str(i), res[-1]['nm'].get(i)) for i in res[-1]['ord']] if isinstance(res[-1]['ord'], list) else res[-1]['ord']}


def cm_differences(g):
    """schema particle vs library template as languages (search aid; the proof is C03_content_models)"""
    import sys
    sys.path.insert(0, os.path.join(C.VERIF, 'tr'))
    from schema import cls_name
    out = []
    for key, xp in g['xsd_particles'].items():
        lt = g['templates'].get(cls_name(key, 'XSDComplexType'))
        if lt is None:
            continue
        a, b = rx.of_tree(xp), rx.of_tree(lt)
        if a == b:
            continue
        alpha = sorted(set(rx.alphabet(xp)) | set(rx.alphabet(lt)))
        d = rx.distinguishing_word(a, b, alpha)
        if d:
            out.append((key, d[0], d[1]))
    return out


def run_sharded(runner, job_of_shard, items, timeout=3000):
    """run corr/<runner> on NPROC shards of `items`; job_of_shard(shard index, items) -> JSON job; returns the concatenated outputs per shard"""
    import threading
    n = max(1, min(C.NPROC, len(items)))
    outs = [None] * n

    def work(i):
        sh = items[i::n]
        r = subprocess.run([C.PY, '-W', 'ignore', os.path.join(C.VERIF, 'corr', runner)], input=json.dumps(job_of_shard(i, sh)), capture_output=True, text=True,
                           env=C.impl_env(), timeout=timeout)
        if r.returncode != 0:
            raise RuntimeError('%s failed: %s' % (runner, r.stderr[-1500:]))
        outs[i] = (sh, json.loads(r.stdout))
    ths = [threading.Thread(target=work, args=(i,)) for i in range(n)]
    [t.start() for t in ths]
    [t.join() for t in ths]
    if any(o is None for o in outs):
        raise RuntimeError('%s: a shard failed' % runner)
    return outs
