"""Infoset comparison of two XML texts: same elements, order, attributes and text, up to the decimal spelling of numbers and
insignificant white space (indentation inside elements that have children)."""
import xml.etree.ElementTree as ET
from decimal import Decimal, InvalidOperation


def same_value(a, b):
    if a == b:
        return True
    try:
        return Decimal(a.strip()) == Decimal(b.strip())
    except (InvalidOperation, AttributeError, ValueError):
        return False


def diff(a, b, path=''):
    """first difference between two ET elements or None"""
    here = path + '/' + a.tag
    if a.tag != b.tag:
        return '%s: element <%s> vs <%s>' % (path, a.tag, b.tag)
    ka, kb = dict(a.attrib), dict(b.attrib)
    for k in ka:
        if k not in kb:
            return '%s: attribute %s=%r lost' % (here, k, ka[k])
        if not same_value(ka[k], kb[k]):
            return '%s: attribute %s %r became %r' % (here, k, ka[k], kb[k])
    for k in kb:
        if k not in ka:
            return '%s: attribute %s=%r appeared' % (here, k, kb[k])
    ta, tb = a.text or '', b.text or ''
    if len(a) or len(b):
        ta, tb = ta.strip(), tb.strip()
    if not same_value(ta, tb):
        return '%s: text %r became %r' % (here, ta, tb)
    if len(a) != len(b):
        return '%s: %d children became %d (%s vs %s)' % (here, len(a), len(b), [c.tag for c in a], [c.tag for c in b])
    for i, (x, y) in enumerate(zip(a, b)):
        if (x.tail or '').strip() != (y.tail or '').strip():
            return '%s: text after child <%s> %r became %r' % (here, x.tag, (x.tail or '').strip(), (y.tail or '').strip())
        d = diff(x, y, here)
        if d:
            return d
    return None


def diff_text(s1, s2):
    try:
        a = ET.fromstring(s1)
    except ET.ParseError as e:
        return 'first text is not well-formed: %s' % e
    try:
        b = ET.fromstring(s2)
    except ET.ParseError as e:
        return 'second text is not well-formed: %s' % e
    return diff(a, b)
