"""Shared corpus machinery for the properties about the child matcher (C01 C02 C06 C07 C10 C11 C12 C18 C19):
generate histories, run them on the implementation, on the faithful model M_py and on the specification machines
(extracted Coq), compare per-property projections, judge the implementation's outputs with the verified matcher."""
import json
import os
import random
from . import common as C
from . import extract, hist, impl, rx

CORPUS_DIR = os.path.join(C.VERIF, 'corr', 'corpus')


def load_corpus(prop):
    """minimised failing histories kept from earlier runs / seeded changes; they run first"""
    out = []
    if os.path.isdir(CORPUS_DIR):
        for f in sorted(os.listdir(CORPUS_DIR)):
            if f.endswith('.json'):
                d = json.load(open(os.path.join(CORPUS_DIR, f)))
                for c in d.get('cases', []):
                    if not d.get('properties') or prop in d['properties']:
                        out.append({'type': c['type'], 'ops': c['ops']})
    return out


def flags(ops):
    """coarse classification of a history by the operation kinds outside the well-behaved set"""
    f = []
    if any(o[0] == 'w' for o in ops):
        f.append('forward')
    if any(o[0] == 'p' for o in ops):
        f.append('replace')
    if any(o[0] == 'r' for o in ops):
        f.append('remove')
    if any(o[0] == 'f' and o[1] for o in ops):
        f.append('ic')
    return '+'.join(f) if f else 'plain'


def cause_key(typ, ops):
    """root-cause class of a failing history: a forward add (RC2), a replacement by a differently named element (RC1),
    otherwise the element type itself"""
    if any(o[0] == 'w' for o in ops):
        return 'forward'
    if any(o[0] == 'p' for o in ops):
        return 'replace'
    if any(o[0] in 'es' for o in ops):
        return 'alias'
    return 'other:' + typ


class Corpus:
    def __init__(self, rep, per_type, maxlen=14, mode=3, types=None, prop=None, guided=0.7, extra_cases=None):
        self.rep = rep
        self.m = extract.Model()
        self.g = self.m.g
        self.classes = self.m.classes()
        cases = load_corpus(prop or rep.prop) + (extra_cases or [])
        self.n_corpus = len(cases)
        cases += hist.gen_histories(self.g, rep.seed, per_type, maxlen=maxlen, mode=mode, types=types, guided=guided)
        if types is None and extra_cases is None:
            cases += incomplete_word_cases(self.g, rep.seed, 12 if per_type < 100 else 80)
            cases += short_exhaustive_cases(self.g, self.classes, rep.seed, 3 if per_type < 100 else 4, 700 if per_type < 100 else 5000)
            cases += choice_removal_cases(self.g, rep.seed, 6 if per_type < 100 else 40)
        self.cases = cases
        self.impl = impl.run_cases(cases)
        self.model = self.m.run_py(cases)
        bad = [i for i, r in enumerate(self.impl) if isinstance(r, dict)]
        if bad:
            raise RuntimeError('implementation runner error: %s on %s' % (self.impl[bad[0]], cases[bad[0]]))
        self.stats = hist.stats(cases, self.impl)

    def close(self):
        self.m.close()

    def names(self, case_i, op_i, ids):
        nm = self.impl[case_i][op_i]['nm']
        return [nm.get(str(i), nm.get(i)) for i in ids]

    def correspondence(self, proj):
        """first op per history on which proj(impl) != proj(model); returns [(case index, op index)]"""
        out = []
        for ci, (a, b) in enumerate(zip(self.impl, self.model)):
            for oi, (x, y) in enumerate(zip(a, b)):
                if proj(self.cases[ci]['ops'][oi], x) != proj(self.cases[ci]['ops'][oi], y):
                    out.append((ci, oi))
                    break
        return out

    def model_agrees(self, ci, oi, proj):
        a, b = self.impl[ci], self.model[ci]
        return all(proj(self.cases[ci]['ops'][k], a[k]) == proj(self.cases[ci]['ops'][k], b[k]) for k in range(oi + 1))

    def nontrivial(self):
        """distinct histories that reach a non-default matcher path: a rejection, an internal error, a removal,
        a replacement, forward, or a refused final check"""
        seen = set()
        for c, r in zip(self.cases, self.impl):
            nt = any(o['st'] not in ('ok', 'skip') or (o.get('req')) for o in r) or any(op[0] in 'rpw' for op in c['ops'])
            if nt:
                seen.add((c['type'], json.dumps(c['ops'])))
        return len(seen)

    def coverage(self, extra=None):
        cov = self.rep.coverage
        cov['evaluations'] = cov.get('evaluations', 0) + len(self.cases)
        cov['distinct_nontrivial'] = cov.get('distinct_nontrivial', 0) + self.nontrivial()
        cov['traces_validated_against_impl'] = cov.get('traces_validated_against_impl', 0) + len(self.cases)
        cov['rule'] = ('histories over all 94 element-content types: corpus of minimised failures first, then seeded generation '
                       '(70% derivative-guided mostly-valid, 30% uniform over a 2-5 symbol sub-alphabet; ops add / forward add / remove / '
                       'replace / final with and without intelligent choice); non-trivial = distinct history reaching a rejection, an '
                       'internal error, a refused final check, a removal, a replacement or a forward add')
        cov['input_distribution'] = self.stats
        cov['samples'] = [self.cases[i] for i in (0, len(self.cases) // 2, len(self.cases) - 1)][:3]
        if extra:
            cov.update(extra)


def shrink(case, still_fails, max_rounds=40):
    """greedy one-op deletion; still_fails(list of candidate cases) -> list of bools (batched)"""
    cur = case
    for _ in range(max_rounds):
        ops = cur['ops']
        cands = [dict(cur, ops=ops[:i] + ops[i + 1:]) for i in range(len(ops))]
        # removing an op shifts the indices used by later remove/replace ops: keep candidates as they are (indices
        # refer to the insertion list at that moment), the predicate decides
        res = still_fails(cands)
        pick = [c for c, r in zip(cands, res) if r]
        if not pick:
            return cur
        cur = min(pick, key=lambda c: len(c['ops']))
    return cur


def machine_corpus(rep, m, classes, per_type, maxlen, seed):
    """histories on the specification machines' own operation sets, for the types of their classes"""
    rng = random.Random(seed * 7919 + 13)
    seq_cases, bag_cases, cho_cases = [], [], []
    for k, cl in classes.items():
        tree = m.g['templates'][k]
        alpha = rx.alphabet(tree)
        r = rx.of_tree(tree)
        if cl in ('seq', 'noopt', 'choice'):
            for _ in range(per_type * (3 if cl == 'choice' else 1)):
                ops = hist.gen_guided(rng, r, alpha, maxlen, 1) if rng.random() < 0.6 else hist.gen_uniform(rng, alpha, maxlen, 1)
                ops = [[o[0], o[1]] if o[0] != 'f' else ['f', 0] for o in ops]
                # same-name replaces
                out = []
                added = []
                for o in ops:
                    out.append(o)
                    if o[0] == 'a':
                        added.append(o[1])
                    if added and rng.random() < 0.08:
                        k2 = rng.randrange(len(added))
                        out.append(['q', k2])
                (cho_cases if cl == 'choice' else seq_cases).append({'type': k, 'ops': out})
        elif cl == 'bag':
            others = [x for x in sorted(m.g['sym']) if x not in alpha][:3]
            for _ in range(per_type):
                ops = []
                for _i in range(rng.randrange(1, maxlen)):
                    x = rng.random()
                    ops.append(['f', 0] if x < 0.25 else ['a', rng.choice(alpha if x < 0.92 else others)])
                bag_cases.append({'type': k, 'ops': ops})
    return seq_cases, bag_cases, cho_cases




# ---------------------------------------------------------------- twin comparisons (C10, C11)
def names_of(o, ids):
    nm = o['nm'] if 'nm' in o else {}
    return [nm.get(str(i), nm.get(i, '?')) for i in ids]


def summary(case, res, name_table=None):
    """what a user can observe at the end of a history, independent of child ids: outcome class of the last operation,
    names in both views, and for a final check its verdict"""
    o = res[-1]
    op = case['ops'][-1]
    if name_table is None:
        name_table = id_names(case, res)
    ordn = [name_table.get(i, '?') for i in o['ord']] if isinstance(o['ord'], list) else o['ord']
    unon = [name_table.get(i, '?') for i in o['uno']]
    s = {'out': hist.outcome_class(o['st']), 'ord': ordn, 'uno': unon}
    if op[0] == 'f':
        s['verdict'] = None if o.get('req') is None else ('pass' if o['req'] == [] else 'refuse')
    return s


def id_names(case, res):
    """name of every child id, derived from the history itself (id = index of the creating operation)"""
    t = {}
    for i, op in enumerate(case['ops']):
        if op[0] in ('a', 'w', 'x'):
            t[i] = op[1]
        elif op[0] == 'p':
            t[i] = op[2]
        elif op[0] == 'q':
            prev = res[i - 1]['uno'] if i > 0 else []
            if op[1] < len(prev):
                t[i] = t.get(prev[op[1]], '?')
    return t


def probes_for(g, typ, rng, n_sym=3):
    alpha = rx.alphabet(g['templates'][typ])
    syms = rng.sample(alpha, min(n_sym, len(alpha)))
    return [['f', 0]] + [['a', s] for s in syms]


def run_both(m, cases):
    return impl.run_cases(cases), m.run_py(cases)


def eq_summary(a, b):
    return a == b


def exhaustive_machine_corpus(m, classes, length, seed, n_sym=3):
    """ALL histories up to `length` over add(3 symbols) / remove #0,#1 / same-name replace #0 / final, for every type of the machine classes"""
    import itertools
    rng = random.Random(seed * 31 + 1)
    seq_cases, bag_cases, cho_cases = [], [], []
    for k, cl in sorted(classes.items()):
        alpha = rx.alphabet(m.g['templates'][k])
        sub = rng.sample(alpha, min(n_sym, len(alpha)))
        if cl in ('seq', 'noopt', 'choice'):
            if cl == 'choice':
                sub = alpha[:5]
            ops = [['a', s] for s in sub] + [['r', 0], ['r', 1], ['q', 0], ['f', 0]]
            for ln in range(1, length + 1):
                for h in itertools.product(ops, repeat=ln):
                    (cho_cases if cl == 'choice' else seq_cases).append({'type': k, 'ops': [list(o) for o in h]})
        elif cl == 'bag':
            ops = [['a', s] for s in sub] + [['f', 0]]
            for ln in range(1, length + 2):
                for h in itertools.product(ops, repeat=ln):
                    bag_cases.append({'type': k, 'ops': [list(o) for o in h]})
    return seq_cases, bag_cases, cho_cases


def search_near(m, seeds, sweep, seed, per_seed=400):
    """A correspondence with the model broke on these (type, ops) prefixes.  Search their neighbourhood - the diverging prefix
    extended by every short list of adds and by random short continuations, each closed by a final check - for a history on which the
    PROPERTY itself fails in a way the pinned model does not predict.  Returns [(case, op index, what)] shortest first."""
    import itertools
    rng = random.Random(seed * 17 + 3)
    cases = []
    for typ, ops in seeds:
        alpha = rx.alphabet(m.g['templates'][typ])
        bases = [list(ops)]
        stripped = list(ops)
        while stripped and stripped[-1][0] == 'f':
            stripped = stripped[:-1]
        if stripped != bases[0]:
            bases.append(stripped)
        exts = [[]]
        depth = 1
        while depth < 3 and len(alpha) ** (depth + 1) <= per_seed // 2:
            depth += 1
        for d in range(1, depth + 1):
            for w in itertools.product(alpha, repeat=d):
                exts.append([['a', x] for x in w])
        for _ in range(per_seed // 2):
            e = []
            for _ in range(rng.randint(1, 5)):
                x = rng.random()
                e.append(['a', rng.choice(alpha)] if x < 0.75 else ['r', rng.randint(0, 2)] if x < 0.9 else ['q', rng.randint(0, 2)])
            exts.append(e)
        for b in bases:
            for e in exts:
                cases.append({'type': typ, 'ops': b + e + [['f', 0], ['f', 1]]})
    if not cases:
        return [], 0
    io, mo = run_both(m, cases)
    found = [(cases[ci], oi, what) for ci, oi, what, pred in sweep(m, cases, io, mo) if not pred]
    found.sort(key=lambda f: f[1])
    return found, len(cases)


def report_broken_correspondence(rep, m, seeds, sweep, label, details):
    """seeds: [(type, ops prefix)] where implementation and model diverge; details: one replay dict per seed"""
    found, n = search_near(m, seeds, sweep, rep.seed)
    rep.coverage['neighbourhood_search_histories'] = rep.coverage.get('neighbourhood_search_histories', 0) + n
    if found:
        seen = set()
        for case, oi, what in found:
            if case['type'] in seen:
                continue
            seen.add(case['type'])
            rep.violation('%s: %s (found by searching around a history where the %s correspondence broke)' % (case['type'], what, label),
                          {'type': case['type'], 'ops': case['ops'][:oi + 1], 'why': what, 'model_predicts': False, 'correspondence': label})
            if len(seen) >= 3:
                break
    else:
        for (typ, ops), d in list(zip(seeds, details))[:3]:
            rep.violation('implementation and model disagree on %s (%s); no history violating the property was found among %d neighbours' % (typ, label, n),
                          dict(d, correspondence=label, type=typ, ops=ops), found_input=False)


def incomplete_word_cases(g, seed, per_type, maxlen=5):
    """words of each content model with ONE child left out, supplied in a shuffled order (so that the matcher has to re-home children and the
    final check has to notice what is missing), each followed by both final checks"""
    rng = random.Random(seed * 131 + 7)
    cases = []
    for t in g['types']:
        tree = g['templates'][t]
        alpha = rx.alphabet(tree)
        ws = [w for w in rx.words(rx.of_tree(tree), alpha, maxlen, cap_per_len=40) if len(w) >= 2]
        rng.shuffle(ws)
        for w in ws[:per_type]:
            v = list(w)
            del v[rng.randrange(len(v))]
            if rng.random() < 0.8:
                rng.shuffle(v)
            cases.append({'type': t, 'ops': [['a', s] for s in v] + [['f', 0], ['f', 1]]})
    return cases


def short_exhaustive_cases(g, classes, seed, maxlen=3, cap=700):
    """ALL add-only histories up to maxlen (over the whole alphabet, or over a random 8-symbol part of it when that is too many) for the types
    outside the machine classes - where the matcher is a heuristic and a particular short history is all it takes"""
    import itertools
    rng = random.Random(seed * 977 + 5)
    cases = []
    for t in g['types']:
        if classes.get(t) in ('seq', 'noopt', 'bag', 'choice'):
            continue
        alpha = rx.alphabet(g['templates'][t])
        if len(alpha) ** maxlen > cap:
            # keep the names that occur more than once in the template (they are where re-homing happens) and fill up at random
            flat = json.dumps(g['templates'][t])
            rep_names = [a for a in alpha if flat.count('"%s"' % a) > 1]
            rest = [a for a in alpha if a not in rep_names]
            rng.shuffle(rest)
            alpha = (rep_names + rest)[:8]
        for ln in range(2, maxlen + 1):
            for w in itertools.product(alpha, repeat=ln):
                cases.append({'type': t, 'ops': [['a', x] for x in w] + [['f', 0]]})
    return cases


def repeat_then_remove_cases(g, seed, per_type=14):
    """one child name supplied n times in a row (every repetition after the first goes through the duplication of a sequence or of a choice),
    then the last or the first of them taken back, then both final checks: what duplication leaves behind in the copies is judged after a removal"""
    rng = random.Random(seed * 613 + 11)
    cases = []
    for t in g['types']:
        alpha = list(rx.alphabet(g['templates'][t]))
        rng.shuffle(alpha)
        for a in alpha[:per_type]:
            for n in (2, 3):
                cases.append({'type': t, 'ops': [['a', a]] * n + [['r', n - 1], ['f', 0], ['f', 1]]})
            cases.append({'type': t, 'ops': [['a', a]] * 3 + [['r', 0], ['f', 0], ['f', 1]]})
            # ... and ALL of them taken back: what the duplication built must not hide that a required particle is empty again
            cases.append({'type': t, 'ops': [['a', a]] * 2 + [['r', 0], ['r', 0], ['f', 0], ['f', 1]]})
            cases.append({'type': t, 'ops': [['a', a]] * 3 + [['r', 2], ['r', 0], ['r', 0], ['f', 0], ['f', 1]]})
    return cases


def choice_removal_cases(g, seed, pairs_per_choice=10):
    """for every choice of every template and pairs of its branches (a from one, b from another): add a; [add a;] remove the first a; [add a;] add b -
    the alternative must be exactly as available as on a fresh element holding what is left"""
    rng = random.Random(seed * 53 + 11)
    cases = []

    def first_leaf(t):
        if t[0] == 'E':
            return t[1]
        kids = t[4] if t[0] == 'G' else t[3]
        for k in kids:
            x = first_leaf(k)
            if x:
                return x
        return None

    def walk(t, acc):
        if t[0] == 'E':
            return
        kids = t[4] if t[0] == 'G' else t[3]
        if t[0] == 'C' and len(kids) >= 2:
            acc.append([first_leaf(k) for k in kids])
        for k in kids:
            walk(k, acc)
    for typ in g['types']:
        choices = []
        walk(g['templates'][typ], choices)
        for leaves in choices:
            leaves = [x for x in leaves if x]
            prs = [(a, b) for a in leaves for b in leaves if a != b]
            rng.shuffle(prs)
            for a, b in prs[:pairs_per_choice]:
                for h in ([['a', a], ['a', a], ['r', 0], ['a', a], ['a', b]], [['a', a], ['r', 0], ['a', b]], [['a', a], ['a', a], ['r', 0], ['a', b]],
                          [['a', a], ['a', b], ['r', 0], ['a', b]]):
                    cases.append({'type': typ, 'ops': h + [['f', 0]]})
    return cases
