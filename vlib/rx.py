"""Python regular-expression toolkit over particles (search aid only: generation of words, distinguishing words,
guidance of generators).  Verdicts that count are always re-derived by the extracted verified matcher."""
from functools import lru_cache

VOID = ('void',)
EPS = ('eps',)


def norm(t):
    k = t[0]
    if k in 'EG':
        name, mn, mx, ch = t[1:]
    else:
        name = None
        mn, mx, ch = t[1:]
    return k, name, mn, mx, [norm(c) for c in ch]


def rx(t):
    k, name, mn, mx, ch = t
    if k == 'E':
        base = ('sym', name)
    elif k == 'C':
        base = mkalt([rx(c) for c in ch])
    else:
        base = mkcat([rx(c) for c in ch])
    if mn == 1 and mx == 1:
        return base
    return ('rep', base, mn, None if mx == 'unbounded' else mx)


def of_tree(t):
    return rx(norm(t))


@lru_cache(None)
def nullable(r):
    k = r[0]
    if k == 'eps':
        return True
    if k in ('sym', 'void'):
        return False
    if k == 'cat':
        return all(nullable(x) for x in r[1])
    if k == 'alt':
        return any(nullable(x) for x in r[1])
    return r[2] == 0 or nullable(r[1])


def mkcat(xs):
    out = []
    for x in xs:
        if x == VOID:
            return VOID
        if x == EPS:
            continue
        if x[0] == 'cat':
            out.extend(x[1])
        else:
            out.append(x)
    if not out:
        return EPS
    if len(out) == 1:
        return out[0]
    return ('cat', tuple(out))


def mkalt(xs):
    out = []
    for x in xs:
        if x == VOID:
            continue
        if x[0] == 'alt':
            for y in x[1]:
                if y not in out:
                    out.append(y)
        elif x not in out:
            out.append(x)
    if not out:
        return VOID
    if len(out) == 1:
        return out[0]
    return ('alt', tuple(sorted(out, key=repr)))


@lru_cache(None)
def deriv(r, a):
    k = r[0]
    if k in ('eps', 'void'):
        return VOID
    if k == 'sym':
        return EPS if r[1] == a else VOID
    if k == 'alt':
        return mkalt([deriv(x, a) for x in r[1]])
    if k == 'cat':
        xs = r[1]
        alts = []
        for i, x in enumerate(xs):
            alts.append(mkcat([deriv(x, a)] + list(xs[i + 1:])))
            if not nullable(x):
                break
        return mkalt(alts)
    _, b, mn, mx = r
    if mx == 0:
        return VOID
    nmn = max(mn - 1, 0)
    nmx = None if mx is None else mx - 1
    rest = ('rep', b, nmn, nmx) if not (nmn == 0 and nmx == 0) else EPS
    return mkcat([deriv(b, a), rest])


@lru_cache(None)
def first(r):
    k = r[0]
    if k in ('eps', 'void'):
        return frozenset()
    if k == 'sym':
        return frozenset([r[1]])
    if k == 'alt':
        return frozenset().union(*[first(x) for x in r[1]])
    if k == 'cat':
        s = set()
        for x in r[1]:
            s |= first(x)
            if not nullable(x):
                break
        return frozenset(s)
    return first(r[1]) if r[3] != 0 else frozenset()


def accepts(r, w):
    for a in w:
        r = deriv(r, a)
        if r == VOID:
            return False
    return nullable(r)


def alive(r, w):
    for a in w:
        r = deriv(r, a)
        if r == VOID:
            return False
    return True


def leaves(t):
    k, name, mn, mx, ch = t
    if k == 'E':
        return [name]
    return [x for c in ch for x in leaves(c)]


def alphabet(tree):
    out = []
    for x in leaves(norm(tree)):
        if x not in out:
            out.append(x)
    return out


def distinguishing_word(a, b, alpha, limit=20000):
    """BFS over pairs of derivatives; returns (word, in_a) or None when none found within the limit"""
    from collections import deque
    seen = {(a, b)}
    q = deque([((), a, b)])
    n = 0
    while q and n < limit:
        w, x, y = q.popleft()
        n += 1
        if nullable(x) != nullable(y):
            return list(w), nullable(x)
        for s in alpha:
            dx, dy = deriv(x, s), deriv(y, s)
            if (dx, dy) not in seen and not (dx == VOID and dy == VOID):
                seen.add((dx, dy))
                q.append((w + (s,), dx, dy))
    return None


def words(r, alpha, maxlen, cap_per_len=200):
    """all words of the language up to maxlen (capped per length), by derivative frontier"""
    out = []
    frontier = [((), r)]
    for ln in range(maxlen + 1):
        nxt = []
        cnt = 0
        for w, x in frontier:
            if nullable(x) and cnt < cap_per_len:
                out.append(list(w))
                cnt += 1
            if ln < maxlen:
                for s in sorted(first(x)):
                    d = deriv(x, s)
                    if d != VOID:
                        nxt.append((w + (s,), d))
        if len(nxt) > cap_per_len * 8:
            import random
            random.Random(ln).shuffle(nxt)
            nxt = nxt[:cap_per_len * 8]
        frontier = nxt
    return out


def cover_word_ex(r, need, limit=30000):
    """(word or None, exhausted): exhausted = the whole space of (derivative, remaining need) pairs was searched, so None means no word dominates"""
    res = cover_word(r, need, limit, _flag := [False])
    return res, _flag[0]


def cover_word(r, need, limit=30000, exhausted_flag=None):
    """search for a word of r whose letter counts dominate the multiset `need` (list of names); BFS over
    (derivative, remaining need).  Returns the word or None (None is NOT a proof of deadness)."""
    from collections import deque, Counter
    start = tuple(sorted(Counter(need).items()))
    q = deque([((), r, start)])
    seen = {(r, start)}
    n = 0
    while q and n < limit:
        w, x, nd = q.popleft()
        n += 1
        if not nd and nullable(x):
            return list(w)
        ndd = dict(nd)
        f = sorted(first(x))
        # prefer symbols that are still needed
        f.sort(key=lambda s: 0 if s in ndd else 1)
        for s in f:
            d = deriv(x, s)
            if d == VOID:
                continue
            if s in ndd:
                nn = dict(ndd)
                nn[s] -= 1
                if nn[s] == 0:
                    del nn[s]
                nt = tuple(sorted(nn.items()))
            else:
                nt = nd
            if (d, nt) not in seen:
                seen.add((d, nt))
                q.append((w + (s,), d, nt))
    if exhausted_flag is not None and not q:
        exhausted_flag[0] = True
    return None


def arrangements(r, multiset, cap=3):
    """distinct words of r that use exactly the multiset (up to `cap`)"""
    from collections import Counter
    out = []

    def go(x, rem, w):
        if len(out) >= cap:
            return
        if not rem:
            if nullable(x):
                out.append(list(w))
            return
        for s in sorted(rem):
            d = deriv(x, s)
            if d != VOID:
                r2 = dict(rem)
                r2[s] -= 1
                if r2[s] == 0:
                    del r2[s]
                go(d, r2, w + [s])
    go(r, dict(Counter(multiset)), [])
    return out
