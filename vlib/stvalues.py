"""(simple type class, value) batteries shared by C05 and C13."""
import json
import os
import subprocess
from . import common as C

STRS = ['', ' ', 'a', 'A', '1', '0', '-1', '+1', '01', '1.5', '1.', '.5', '1e5', '#FFFFFF', '#ffffff', '#FFFFFF00', '#FFF', 'a, b', 'a,b', ',',
        '2000-01-01', '2000-13-01', '2000-01-01Z', '2000-01-01+01:00', '1, 2', '1,2', '0, 1', '  G ', ' yes', 'yes ', 'a  b', 'a\tb', 'a\nb', 'acc', 'accX',
        'coda', 'codaX', 'lyricsX', 'pictX', 'segno', 'wiggleX', 'guitarVibratoStroke', 'en', 'en-US', 'x-abc', '1abc', 'abc', 'a:b', ':a', 'ä', 'normal',
        '1 2', '1,\xa02', '1,\u20032', '1,\x0b2', 'a\xa0b', '\xa01', '1\xa0', '1,\x0c 2', 'a\u2028b', 'Arial', 'Arial, Helvetica', 'xx-large', 'P1', 'id-1', '1id', 'accidentalSharp', 'noteheadBlack',
        # the corners of the date lexical space: more than four year digits, years BCE, the year 0000, days the month does not have, short fields
        '10000-01-01', '12021-06-15Z', '-0044-03-15', '-0001-12-31', '0000-01-01', '2021-02-30', '2000-02-29', '99999-12-31+01:00', '2000-00-10', '2000-1-1', '-12021-06-15', '2000-01-01-14:00']
NUMS = ['0', '1', '-1', '2', '3', '4', '6', '7', '8', '9', '10', '16', '17', '99', '100', '101', '127', '128', '129', '180', '181', '-180', '-181', '16384', '16385',
        'True', 'False', '0.0', '0.5', '1.0', '-0.5', '1e-05', '1e16', '1e22', "float('nan')", "float('inf')", "-float('inf')", '100.5', '180.5', '-0.0', '123456789.125',
        'None', '2.5', '99.9', '0.1', '3.0', '1.5', '1', '0.5']


def all_literals(g):
    out = []
    for t, d in sorted(g['stypes'].items()):
        for e in d['enum']:
            if e not in out:
                out.append(e)
        for inner in d.get('inner', []):
            for e in inner['enum']:
                if e not in out:
                    out.append(e)
    return out


def battery(g, rng, foreign_literals=30, full=False):
    import sys
    sys.path.insert(0, os.path.join(C.VERIF, 'tr'))
    from schema import cls_name
    lits = all_literals(g)
    xsd_of = {}
    for t in g['stypes']:
        xsd_of[cls_name(t, 'XSDSimpleType')] = t
    pairs = []
    for cls in sorted(g['lib']['stypes']):
        own = []
        t = xsd_of.get(cls)
        if t:
            d = g['stypes'][t]
            own = list(d['enum']) + [e for i in d.get('inner', []) for e in i['enum']]
            for m in (d.get('union') or []):
                if m in g['stypes']:
                    own += g['stypes'][m]['enum']
        # literals of the types this class derives from / that derive from it (a restriction narrows an enumeration:
        # the base's other literals are exactly the values the derived type must refuse)
        mro = [k for k in g['lib']['stypes'][cls]['mro'] if k != cls and k != 'XSDSimpleType']
        desc = [k for k, d2 in g['lib']['stypes'].items() if cls in d2['mro'] and k != cls]
        rel = []
        for k in mro + desc:
            tk = xsd_of.get(k)
            if tk:
                rel += g['stypes'][tk]['enum']
        own = own + [x for x in rel if x not in own]
        others = [x for x in lits if x not in own]
        vals = [repr(x) for x in own] + [repr(x) for x in (others if full else rng.sample(others, min(len(others), foreign_literals)))] + \
               [repr(x) for x in STRS] + NUMS
        # boundary numbers derived from the type's own facets
        if t:
            d = g['stypes'][t]
            for k in ('minInclusive', 'maxInclusive', 'minExclusive', 'maxExclusive'):
                if d.get(k) is not None:
                    try:
                        z = int(d[k])
                        vals += [str(z - 1), str(z), str(z + 1), repr(float(z)), repr(z + 0.5), repr(z - 0.5), repr(str(z)), repr(str(z - 1)), repr(str(z + 1))]
                    except ValueError:
                        pass
        seen = set()
        for v in vals:
            if v not in seen:
                seen.add(v)
                pairs.append([cls, v])
    return pairs, xsd_of


def run_battery(pairs, order=None, shards=None):
    """evaluate on the implementation; `order`: None (given order, sharded over processes) or a permutation evaluated in ONE process"""
    def call(ps):
        r = subprocess.run([C.PY, '-W', 'ignore', os.path.join(C.VERIF, 'corr', 'st_runner.py')], input=json.dumps({'pairs': ps}), capture_output=True,
                           text=True, env=C.impl_env(), timeout=3000)
        if r.returncode != 0:
            raise RuntimeError('st_runner failed: ' + r.stderr[-1500:])
        return json.loads(r.stdout)
    if order is not None:
        res = call([pairs[i] for i in order])
        out = [None] * len(pairs)
        for i, v in zip(order, res):
            out[i] = v
        return out
    n = shards or C.NPROC
    # shard by class so that every process sees whole classes (process-history effects are C13's business)
    import threading
    idx = [[] for _ in range(n)]
    classes = sorted({p[0] for p in pairs})
    cmap = {c: i % n for i, c in enumerate(classes)}
    for i, p in enumerate(pairs):
        idx[cmap[p[0]]].append(i)
    outs = [None] * n

    def work(k):
        outs[k] = call([pairs[i] for i in idx[k]]) if idx[k] else []
    ths = [threading.Thread(target=work, args=(k,)) for k in range(n)]
    [t.start() for t in ths]
    [t.join() for t in ths]
    out = [None] * len(pairs)
    for k in range(n):
        if outs[k] is None:
            raise RuntimeError('st_runner shard failed')
        for i, v in zip(idx[k], outs[k]):
            out[i] = v
    return out
